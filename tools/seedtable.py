#!/usr/bin/env python3
import json,glob,os
rows=[]
for d in sorted(glob.glob('/verif/seeded/*/')):
    m=json.load(open(d+'meta.json'))
    rows.append((os.path.basename(d.rstrip('/')), m.get('property'), (m.get('summary') or '').replace('\n',' ')[:150], (m.get('checks_run') or '').replace('\n',' ')))
print("| seeded change | property | what it does | which checks catch it |")
print("|---|---|---|---|")
for r in rows:
    print("| `%s` | %s | %s | %s |"%r)

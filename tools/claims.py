claim("C07",
 "Decides statically, on every path of the three sequential workflows at once: the descriptor (50/20/20 samples of 125000/125000/2500 bytes, Round15/Round15/Round12, 15/15/12 items), exactly one io.ReadFull of the whole buffer per sample and no other use of the source, the accumulation of Q and Pass per item, both decision criteria with their strictness for every item, the error naming the failing item, and the (verdict, error) pairing of every return. A static decision of these clauses covers all s x items result matrices, which no sampled stream reaches; it is not a proof of the whole behavioural statement because the per-sample test values are taken as given.",
 "Not decided: the values of the fifteen tests (C01-C05), Threshold/ThresholdQ themselves (C12).",
 "if-converted loop-nest summary of go/ssa + structural rules (R-WF-DESC/READ/ACC/DECIDE/RET)", "DESIGN.md section 4 C07")
claim("C08",
 "Decides for all interleavings at once, from the flow structure: the parallel descriptor and post-barrier decision equal the sequential sibling's (R-SIB); every write reachable from `go worker` is goroutine-fresh, atomic, job-token-owned or under the shared mutex (R-RACE); each token 0..s-1 is sent exactly once (R-TOKEN-UNIQUE); Add(s) precedes dispatch, Done is called exactly once per job on every path and every later read of shared tables follows Wait (R-BARRIER); the decision only consumes sums and the permutation-invariant uniformity statistic (R-ORDER-INDEP). Ownership/barrier reasoning replaces schedule exploration; the Go memory model for sync, atomic and channels is assumed.",
 "Assumes the fifteen tests are pure (decided by C18) and the source's Read is safe for concurrent use or serialised (C10 R-SERIAL).",
 "go-statement binding of worker arguments + ownership/atomic/barrier analysis on summaries", "DESIGN.md section 4 C08")
claim("C09",
 "Decides for every fault point and interleaving at once: sequential and single-shot reads return (false, err) straight from the err != nil edge (R-ERR-SEQ); in the worker wg.Done is called exactly once on every path of a job iteration, the error is published, the spawner scans all error slots after the barrier and can reach `true` only through the all-nil exit, close(jobs) runs on every return, Lock/Unlock pair on all paths, no retry, no panic on the error edge. Together with bounded loops this gives termination given that the source's own Read calls return.",
 "Assumes the source's Read returns (the property's premise). Goroutine exit relies on range-over-closed-channel semantics.",
 "path-condition (truth-table) reasoning over if-converted summaries: exactly-once, must-pass-through, error-value provenance", "DESIGN.md section 4 C09")
claim("C10",
 "Decides for every read-size history at once, by io.ReadFull's contract: every consumption of a workflow's source is io.ReadFull on the whole sample buffer (no io.Reader.Read is invoked anywhere in package detect, positive control included), the slice judged is the very slice filled and only on the err == nil edge of the same iteration, and worker reads are serialised by one mutex shared by all workers.",
 "Relies on the documented contract of io.ReadFull (err == nil iff the buffer was filled).",
 "who-may-call + value identity + lock-region dominance on summaries", "DESIGN.md section 4 C10")
claim("C11",
 "Decides the single-shot detection exactly: one io.ReadFull of make([]byte,numByte); the too-short error and the pattern length m as a function of numByte evaluated at every boundary of the extracted decision term (every numByte 0..4096 in the thorough tier); the verdict is P >= Alpha on result #0 of PokerTestBytes applied to the bytes read.",
 "Not decided: the poker P-value itself (C01).",
 "decision-term extraction + evaluation at all critical points of the integer input", "DESIGN.md section 4 C11")
claim("C12",
 "Decides Threshold and ThresholdQ by structural equivalence with reference formulations written from the property text (expression DAGs compared by random interpretation; comparison atoms compared by boundary and strictness), constant folding of the extracted threshold closed form against exact integer arithmetic (every s <= 10^6 in the thorough tier), and order-independence of the binning loop from its effect shape.",
 "Not decided: Igamc's numeric accuracy (C06). Random interpretation: a false equality at 24/96 independent points has negligible probability; transcendental functions use injective surrogates.",
 "reference equivalence by random interpretation (Gulwani-Necula) + effect-shape commutativity", "DESIGN.md section 4 C12")
claim("C13",
 "Decides the agreement of the report's three hand-written tables for all file contents at once: header syntax and (P,Q) pairing; for every value column of the three scales (79 pairs) the appended P and Q are results of the same library call, from the slot the header kind names, of an entry point implementing the named test, with the labelled constant parameters, applied to the current file's data; one row {Base(file), P, Q} per job; the row writer's format and single Done per row; header/worker binding per scale; Add(count), NumWorkers workers, and identical file filters in the counting and the dispatching walker.",
 "Not decided: liveness under all interleavings beyond these pairing counts (no scheduler model is explored), the numeric values (C01-C05).",
 "table cross-checking on summaries: append-chain resolution to call results, header parsing, sibling-filter equivalence", "DESIGN.md section 4 C13")
claim("C20",
 "Decides the generator structurally for every s, n, output path and interleaving: the created path is <output>/random<token>.bin and data-depends on -o; tokens 0..s-1 each sent once with Add(s) before and Wait after; a buffer of n/8 bytes is filled from crypto/rand inside the iteration and written whole to the file just opened; OpenFile -> fill -> Write -> Close -> Done with Done exactly once on every continuing path; the output directory is created with owner rwx before the workers start; flag names/defaults agree with the README.",
 "Not decided: pairwise different contents (probabilistic; only a fresh fill per file is shown). File-system semantics of os.OpenFile/MkdirAll are trusted.",
 "provenance of the path argument, symbolic string pattern, ordering and exactly-once on summaries", "DESIGN.md section 4 C20")

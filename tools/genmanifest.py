#!/usr/bin/env python3
"""Regenerates /verif/MANIFEST.json from the table below (kept next to the checker so that the
claims, levels and not-applicable reasons live in one reviewed place)."""
import json, os
here = os.path.dirname(os.path.abspath(__file__))
root = os.path.dirname(here)
props = [json.loads(l)['id'] for l in open(os.path.join(root, 'properties.jsonl'))]

TRUST = ("Trusted base: Go type checker and go/ssa (x/tools v0.29.0); documented contracts of io.ReadFull, sync.WaitGroup, sync.Mutex, "
         "sync/atomic, channels and math.*; absence of unsafe/reflect/cgo/assembly in the module (asserted on every run). "
         "Every check also discharges R-LITERALS@startup: no declared init function, initialiser closure or module function they call stores into an "
         "initialised package-level variable the rules read from the source (registry, tables, defaults), replaces a variable of another package "
         "(other than package flag's Usage/CommandLine) or changes the working directory / environment - so the literals the rules read are the run-time values. ")

claims = {}
def claim(pid, text, note, technique, ref):
    claims[pid] = dict(text=text, note=note, technique=technique, ref=ref)

exec(open(os.path.join(here, 'claims.py')).read())

na = {}
exec(open(os.path.join(here, 'na.py')).read())

checks = []
for pid in props:
    if pid in claims:
        c = claims[pid]
        checks.append({
            "property_id": pid,
            "quick_cmd": f"bin/rcheck -prop {pid} -tier quick",
            "thorough_cmd": f"bin/rcheck -prop {pid} -tier thorough",
            "evidence_file": f"evidence/{pid}.json",
            "replay_cmd_template": "bin/rcheck -replay {path}",
            "engine": "rcheck",
            "level_claimed": {"category": "other", "text": c['text'], "design_ref": c['ref']},
            "level_note": TRUST + c['note'],
            "technique": c['technique'],
        })
m = {
    "version": 1,
    "setup_cmd": "cd /verif/checker && GOFLAGS=-mod=mod GOPROXY=off GOSUMDB=off GOTOOLCHAIN=local GOWORK=off go build -o /verif/bin/rcheck .",
    "hooks": {"guard": "verif", "enable": "none needed: the checker analyses /repo's source as it stands; no hook is compiled into the repository",
              "baseline_off_cmd": "cd /repo && go test -vet=off -count=1 -timeout 25m ./...", "source_commits": [], "add_only": True},
    "engines": [
        {"name": "rcheck", "path": "checker/", "serves_properties": sorted(claims),
         "kind_free_text": "custom static analyser over go/packages + go/ssa: if-converted loop-nest summaries with scalar evolution (walk.go, instr.go), canonical guards (guard.go), "
                           "rule sets per property (rules_*.go), structural equivalence with reference formulations by random interpretation (equiv.go, eval.go, ref/)"}],
    "checks": checks,
    "not_applicable": [{"property_id": p, "reason": na.get(p, "no rule built yet for this property (see DESIGN.md section 9)")} for p in props if p not in claims],
    "notes": "Static analysis only: no check compiles-and-runs repository code, runs its tests, or hands paths to a solver. All claims are level 'other': named structural clauses are decided, the behavioural statement as a whole is not (see each level text and DESIGN.md section 6).",
}
json.dump(m, open(os.path.join(root, 'MANIFEST.json'), 'w'), indent=1, ensure_ascii=False)
print("claimed:", sorted(claims), "n/a:", [p for p in props if p not in claims])

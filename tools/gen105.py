import json,os,re,sys
log=sys.argv[1]
fires={}
for l in open(log):
    m=re.match(r'(ok  |BAD )(\S+)\s+(C\d\d) (.*)',l)
    if m:
        sid,prop,res=m.group(2),m.group(3),m.group(4)
        mm=re.search(r'fires: (?:REFUTED|UNDECIDED)\s+(\S+)',res)
        fires[sid]=(prop, ('fires: '+mm.group(1)) if mm else res[:40])
rows=[]
for sid in sorted(os.listdir('/verif/seeded')):
    mp=f'/verif/seeded/{sid}/meta.json'
    if not os.path.exists(mp): continue
    m=json.load(open(mp))
    prop=m.get('property','?')
    summ=' '.join(str(m.get('summary','')).split())[:150].replace('|','/')
    cr=str(m.get('checks_run',''))
    f=fires.get(sid,(prop,'?'))
    if 'SILENT' in cr or 'silent' in cr.lower():
        res=' '.join(cr.split()).replace('|','/')
        if len(res)>330: res=res[:327]+'...'
        res += f' — now {f[0]} {f[1]}'
    else:
        res=f'{f[0]} {f[1]}'
    rows.append(f'| `{sid}` | {prop} | {summ} | {res} |')
p='/verif/DESIGN.md'
s=open(p).read().split('\n')
# locate table
h=[i for i,l in enumerate(s) if l.startswith('| seeded change | property |')][0]
e=h+2
while e<len(s) and s[e].startswith('| `'): e+=1
s[h+2:e]=rows
open(p,'w').write('\n'.join(s))
print(len(rows),'rows')

package main

// Lock-step equivalence of two function summaries (repository function vs reference function written
// from the standard) modulo: variable names, loop forms, cursor vs index idioms, constant spelling,
// integer linear arithmetic, order of carried variables, and input-validation panics.
// Term equality is decided by random interpretation (eval.go).

import (
	"fmt"
	"math"
	"math/big"
	"os"
	"regexp"
	"sort"
	"strings"
)

type Matcher struct {
	S        *Store
	Env      *Env
	PA, PB   *Prog
	A, B     *Summary
	Points   int
	Seed     uint64
	Fails    []string
	preA, preB []*Term // precondition (panic) guards passed so far on each side
	nCmp     int
	nLoops   int
	nEvents  int
	quiet    int
	GlobalAlias map[string]string // canonical global/function name of A -> canonical name in B
	IgnoreCallees map[string]bool
	Exact    bool // floating-point results must agree bit for bit
	valuesOnly bool // compare sampled values only (candidate selection, never a verdict)
}

func NewMatcher(S *Store, pa, pb *Prog, a, b *Summary, seed uint64, points int) *Matcher {
	m := &Matcher{S: S, Env: NewEnv(seed), PA: pa, PB: pb, A: a, B: b, Points: points, Seed: seed, GlobalAlias: map[string]string{}, IgnoreCallees: map[string]bool{}}
	return m
}

func (m *Matcher) fail(format string, a ...interface{}) {
	if m.quiet > 0 {
		m.Fails = append(m.Fails, "q")
		return
	}
	m.Fails = append(m.Fails, fmt.Sprintf(format, a...))
}

func (m *Matcher) canonSet(a, b *Symbol, id string) {
	if a != nil {
		m.Env.Canon[a] = id
	}
	if b != nil {
		m.Env.Canon[b] = id
	}
}

// derived canonical ids for symbols that hang off a loop
func (m *Matcher) deriveLoopCanon(a, b *LoopS, id string) {
	m.canonSet(a.Iter, b.Iter, "iota:"+id)
	m.canonSet(a.IterEnd, b.IterEnd, "iend:"+id)
	for i := 0; i < len(a.Exits) && i < len(b.Exits); i++ {
		m.canonSet(a.Exits[i].Sym, b.Exits[i].Sym, fmt.Sprintf("exit:%s:%d", id, i))
	}
}

// eqTerms compares two terms at all sample points.
func (m *Matcher) eqTerms(a, b *Term) (bool, string) {
	if a == nil || b == nil {
		if a == b {
			return true, ""
		}
		return false, "one side missing"
	}
	m.nCmp++
	valid := 0
	// boundary-directed sampling: integer parameters (and input lengths) are steered onto the values at which
	// some comparison of either term flips (m == 8, n >= 750000, ...) on every third point
	type crit struct {
		sym  *Symbol // parameter symbol, or nil for a length
		dom  string  // Dom key for lengths
		vals []int64
	}
	var crits []crit
	both := m.S.mkOp("tuple", TTuple, a, b)
	for i, ps := range [][]*Term{m.A.Params, m.B.Params} {
		_ = i
		for _, pt := range ps {
			if pt.K != KSym {
				continue
			}
			if pt.Ty == TInt {
				if vs, _ := criticalInts(both, pt); len(vs) > 0 {
					crits = append(crits, crit{sym: pt.Sym, vals: vs})
				}
			} else if pt.Ty == TRef {
				ln := m.S.Op("len", TInt, pt)
				if vs, _ := criticalInts(both, ln); len(vs) > 0 {
					crits = append(crits, crit{dom: "len:" + m.Env.canonOf(pt.Sym), vals: vs})
				}
			}
		}
	}
	savedDom := map[string]Domain{}
	defer func() {
		for k, v := range savedDom {
			if v.Hi < v.Lo {
				delete(m.Env.Dom, k)
			} else {
				m.Env.Dom[k] = v
			}
		}
		for _, c := range crits {
			if c.sym != nil {
				delete(m.Env.Over, c.sym)
			}
		}
	}()
	for k := 0; k < m.Points*4 && valid < m.Points; k++ {
		seed := h64(m.Seed, "pt", k)
		m.Env.Reset(seed)
		for ci, c := range crits {
			if c.sym != nil {
				delete(m.Env.Over, c.sym)
			} else if old, ok := savedDom[c.dom]; ok {
				if old.Hi < old.Lo {
					delete(m.Env.Dom, c.dom)
				} else {
					m.Env.Dom[c.dom] = old
				}
			}
			if k%3 != 1 {
				continue
			}
			v := c.vals[(k/3+ci)%len(c.vals)]
			if v < 0 {
				continue
			}
			if c.sym != nil {
				// both sides' parameter symbols share the canonical id: override through the domain of that id
				id := m.Env.canonOf(c.sym)
				if _, ok := savedDom[id]; !ok {
					if d, ok2 := m.Env.Dom[id]; ok2 {
						savedDom[id] = d
					} else {
						savedDom[id] = Domain{Lo: 1, Hi: 0}
					}
				}
				m.Env.Dom[id] = Domain{Lo: v, Hi: v}
			} else {
				if _, ok := savedDom[c.dom]; !ok {
					if d, ok2 := m.Env.Dom[c.dom]; ok2 {
						savedDom[c.dom] = d
					} else {
						savedDom[c.dom] = Domain{Lo: 1, Hi: 0}
					}
				}
				m.Env.Dom[c.dom] = Domain{Lo: v, Hi: v}
			}
		}
		// a point is admissible when both sides are outside the panic region (agreement of the panic regions themselves
		// is R-PRECOND's business)
		inA, inB := false, false
		for _, p := range m.preA {
			if m.Env.Eval(p).B {
				inA = true
			}
		}
		for _, p := range m.preB {
			if m.Env.Eval(p).B {
				inB = true
			}
		}
		if inA != inB {
			continue
		}
		excl := append([]atomRec{}, m.Env.Atoms...)
		m.Env.Atoms = nil
		exactFloat = m.Exact
		va := m.Env.Eval(a)
		atA := filterAtoms(m.Env.Atoms, excl)
		m.Env.Atoms = nil
		// do not reuse the memo of side A for atoms of side B: shared sub-terms would hide their atoms
		m.Env.memo = map[*Term]Val{}
		for _, p := range append(append([]*Term{}, m.preA...), m.preB...) {
			m.Env.Eval(p)
		}
		m.Env.Atoms = nil
		vb := m.Env.Eval(b)
		atB := filterAtoms(m.Env.Atoms, excl)
		valid++
		same := valsClose(va, vb)
		exactFloat = false
		if !same {
			return false, fmt.Sprintf("values differ at sample point %d: %v vs %v", k, va, vb)
		}
		if m.valuesOnly {
			continue
		}
		if ok, why := atomsEqual(atA, atB); !ok {
			return false, why
		}
		// branch-directed re-evaluation: random floats never reach the rarely-taken side of a float comparison
		// (|pk| > 2^52, t <= 2^-53, qk == 0, ax < -MAXLOG); each compared quantity is moved across its boundary in turn
		// (as a free variable, on both sides alike) and the values must still agree
		if os.Getenv("VERIF_NO_BRANCHDIR") == "" {
			done := 0
			var seenKeys []float64
			for _, at := range atA {
				if !at.HasOps || (at.Kind != "f" && at.Kind != "feq") || (at.AConst && at.BConst) || done >= 6 {
					continue
				}
				dup := false
				for _, k := range seenKeys {
					if k == at.A*31+at.B {
						dup = true
					}
				}
				if dup {
					continue
				}
				seenKeys = append(seenKeys, at.A*31+at.B)
				// the operand that moves is one that is a computed quantity on BOTH sides (a boundary that is a literal on
				// one side and a table entry on the other stays put); with two computed operands, the larger in magnitude
				aConst, bConst := at.AConst, at.BConst
				for _, o := range atB {
					if !o.HasOps || o.Kind != at.Kind {
						continue
					}
					switch {
					case o.A == at.A && o.B == at.B:
						aConst, bConst = aConst || o.AConst, bConst || o.BConst
					case o.A == at.B && o.B == at.A:
						aConst, bConst = aConst || o.BConst, bConst || o.AConst
					}
				}
				if aConst && bConst {
					continue
				}
				mv, fixed := at.A, at.B
				switch {
				case aConst:
					mv, fixed = at.B, at.A
				case bConst:
				case math.Abs(at.B) > math.Abs(at.A):
					mv, fixed = at.B, at.A
				}
				if math.IsNaN(mv) || math.IsNaN(fixed) || math.IsInf(mv, 0) || math.IsInf(fixed, 0) {
					continue
				}
				var to float64
				eps := math.Abs(fixed)*1e-3 + 1e-300
				switch {
				case at.Kind == "feq":
					if mv == fixed {
						to = fixed + eps
					} else {
						to = fixed
					}
				case mv < fixed:
					to = fixed + eps
				case mv > fixed:
					to = fixed - eps
				default:
					to = fixed + eps
				}
				done++
				m.Env.ValOver = &valOver{From: mv, To: to}
				m.Env.memo = map[*Term]Val{}
				m.Env.Atoms = nil
				exactFloat = m.Exact
				va2 := m.Env.Eval(a)
				m.Env.memo = map[*Term]Val{}
				vb2 := m.Env.Eval(b)
				exactFloat = false
				m.Env.ValOver = nil
				m.Env.memo = map[*Term]Val{}
				m.Env.Atoms = nil
				if !valsClose(va2, vb2) {
					return false, fmt.Sprintf("values differ at sample point %d when the comparison of %.6g with %.6g goes the other way: %v vs %v", k, mv, fixed, va2, vb2)
				}
			}
		}
	}
	if valid == 0 {
		return false, "no admissible sample point (preconditions exclude all)"
	}
	return true, ""
}

func filterAtoms(as, excl []atomRec) []atomRec {
	var out []atomRec
	for _, a := range as {
		drop := false
		for _, x := range excl {
			if x.Kind == a.Kind && closeF(x.Key, a.Key) {
				drop = true
			}
		}
		if !drop {
			out = append(out, a)
		}
	}
	return out
}

func liveItems(r *Region, ignore map[string]bool) []interface{} {
	var out []interface{}
	for _, it := range r.Items {
		switch x := it.(type) {
		case *Event:
			if x.Dead {
				continue
			}
			if (x.Kind == "call") && ignore[x.Callee] {
				continue
			}
			out = append(out, x)
		case *LoopS:
			out = append(out, x)
		}
	}
	return out
}

// Run matches the two summaries. Parameters are identified by position.
func (m *Matcher) Run() bool {
	if len(m.A.Params) != len(m.B.Params) {
		m.fail("parameter count differs: %d vs %d", len(m.A.Params), len(m.B.Params))
		return false
	}
	for i := range m.A.Params {
		pa, pb := m.A.Params[i], m.B.Params[i]
		if pa.K == KSym && pb.K == KSym {
			m.canonSet(pa.Sym, pb.Sym, fmt.Sprintf("param:%d", i))
		}
	}
	for k, v := range m.GlobalAlias {
		m.Env.FnAlias[k] = v
	}
	m.matchRegion(m.A.Top, m.B.Top, "top")
	return len(m.Fails) == 0
}

// mergeReturns: the return sites of one region as a single return: taken when any of them is, yielding the values of
// the one taken (the sites end their paths, so at most one is). nil when a result type has no neutral filler.
func (m *Matcher) mergeReturns(rets []*Event) *Event {
	if len(rets) == 0 {
		return nil
	}
	S := m.S
	n := len(rets[0].Rets)
	g := S.False
	for _, r := range rets {
		if len(r.Rets) != n {
			return nil
		}
		g = S.Or(g, r.Guard)
	}
	vals := make([]*Term, n)
	for k := 0; k < n; k++ {
		var d *Term
		switch rets[0].Rets[k].Ty {
		case TInt:
			d = S.Int(0)
		case TFloat:
			d = S.Float(0)
		case TBool:
			d = S.False
		case TRef:
			d = S.Nil
		case TString:
			d = S.Str("")
		default:
			return nil
		}
		for i := len(rets) - 1; i >= 0; i-- {
			if rets[i].Rets[k].Ty != rets[0].Rets[k].Ty {
				return nil
			}
			d = S.Op("ite", d.Ty, rets[i].Guard, rets[i].Rets[k], d)
		}
		vals[k] = d
	}
	cp := *rets[0]
	cp.Guard = S.Canon(g)
	cp.Rets = vals
	cp.Virtual = true
	return &cp
}

func (m *Matcher) posA(e *Event) string { return m.PA.Pos(e.Pos) }

func isPanicItem(it interface{}) (*Event, bool) {
	e, ok := it.(*Event)
	return e, ok && e.Kind == "panic"
}

func (m *Matcher) matchRegion(ra, rb *Region, ctx string) {
	ia, ib := liveItems(ra, m.IgnoreCallees), liveItems(rb, m.IgnoreCallees)
	// returns end the path they are on, so where a return sits among the items of its region is immaterial (block
	// layout decides it): they are matched by path condition after everything else
	splitRets := func(items []interface{}) (rest []interface{}, rets []*Event) {
		for _, it := range items {
			if e, ok := it.(*Event); ok && e.Kind == "return" {
				rets = append(rets, e)
			} else {
				rest = append(rest, it)
			}
		}
		return
	}
	var retsA, retsB []*Event
	ia, retsA = splitRets(ia)
	ib, retsB = splitRets(ib)
	defer func() {
		if len(m.Fails) > 0 {
			return
		}
		// pair the return sites by path condition
		pairs := make([]int, len(retsA))
		used := make([]bool, len(retsB))
		complete := len(retsA) == len(retsB)
		for u, a := range retsA {
			pairs[u] = -1
			for v, b := range retsB {
				if used[v] {
					continue
				}
				m.quiet++
				ok, _ := m.eqTerms(a.Guard, b.Guard)
				m.quiet--
				if ok {
					pairs[u] = v
					used[v] = true
					break
				}
			}
			if pairs[u] < 0 {
				complete = false
			}
		}
		if !complete {
			// the two sides cut the same outcome into different return statements (one `return sel(c, x, y)` against
			// `if c { return x }; return y`, a helper's two returns merged by inlining): compare the outcome as one
			// function of the path condition
			if sa, sb := m.mergeReturns(retsA), m.mergeReturns(retsB); sa != nil && sb != nil {
				m.matchEvent(sa, sb, ctx+"/ret*")
				return
			}
			if len(retsA) != len(retsB) {
				m.fail("%s: %d return sites vs %d in the reference", ctx, len(retsA), len(retsB))
				return
			}
		}
		for u, a := range retsA {
			pick := pairs[u]
			if pick < 0 {
				// report against the positional partner
				for v := range retsB {
					if !used[v] {
						pick = v
						break
					}
				}
				used[pick] = true
			}
			m.matchEvent(a, retsB[pick], fmt.Sprintf("%s/ret%d", ctx, u))
		}
	}()
	i, j, k := 0, 0, 0
	for i < len(ia) || j < len(ib) {
		// input-validation panics are preconditions: registered when the walk passes them, on either side
		if i < len(ia) {
			if e, ok := isPanicItem(ia[i]); ok {
				m.preA = append(m.preA, m.ctxGuard(e.Guard, true))
				m.lenPrecond(e.Guard, m.A.Params)
				i++
				continue
			}
		}
		if j < len(ib) {
			if e, ok := isPanicItem(ib[j]); ok {
				m.preB = append(m.preB, m.ctxGuard(e.Guard, false))
				m.lenPrecond(e.Guard, m.B.Params)
				j++
				continue
			}
		}
		if i >= len(ia) || j >= len(ib) {
			break
		}
		// a run of consecutive allocations is matched as a multiset (declaration order of scratch objects is immaterial)
		if n := allocRun(ia[i:]); n > 1 && n == allocRun(ib[j:]) {
			if perm, ok := m.pairAllocs(ia[i:i+n], ib[j:j+n]); ok {
				for u := 0; u < n; u++ {
					m.matchEvent(ia[i+u].(*Event), ib[j+perm[u]].(*Event), fmt.Sprintf("%s/%d", ctx, k))
					k++
				}
				i += n
				j += n
				continue
			}
		}
		// so is a run of consecutive loads (reads commute with each other)
		if n := loadRun(ia[i:]); n > 1 && n == loadRun(ib[j:]) {
			if perm, ok := m.pairLoads(ia[i:i+n], ib[j:j+n]); ok {
				for u := 0; u < n; u++ {
					m.matchEvent(ia[i+u].(*Event), ib[j+perm[u]].(*Event), fmt.Sprintf("%s/%d", ctx, k))
					k++
				}
				i += n
				j += n
				continue
			}
		}
		// items under mutually exclusive path conditions commute (the two arms of an if/else written in the other
		// order): when the partner in line runs under a different condition, a later reference item with the same
		// condition may be brought forward across items it is exclusive with
		if jj := m.commutingPartner(ia[i], ib, j); jj > j {
			it := ib[jj]
			copy(ib[j+1:jj+1], ib[j:jj])
			ib[j] = it
		}
		switch a := ia[i].(type) {
		case *Event:
			b, ok := ib[j].(*Event)
			if !ok {
				m.fail("%s item %d: code has %s at %s where the reference has a loop", ctx, k, a.Kind, m.posA(a))
				return
			}
			m.matchEvent(a, b, fmt.Sprintf("%s/%d", ctx, k))
		case *LoopS:
			b, ok := ib[j].(*LoopS)
			if !ok {
				m.fail("%s item %d: code has a loop at %s where the reference has %s", ctx, k, m.PA.Pos(a.Pos), ib[j].(*Event).Kind)
				return
			}
			m.matchLoop(a, b, fmt.Sprintf("%s/L%d", ctx, k))
		}
		i++
		j++
		k++
		if len(m.Fails) > 3 {
			return
		}
	}
	if i < len(ia) {
		m.fail("%s: code has extra: %s", ctx, descItem(m.PA, ia[i]))
	} else if j < len(ib) {
		m.fail("%s: reference has extra: %s", ctx, descItem(m.PB, ib[j]))
	}
}

// ctxGuard: a panic inside nested regions is only a precondition of the function when it is at top level.
func (m *Matcher) ctxGuard(g *Term, _ bool) *Term { return g }

func descItem(p *Prog, it interface{}) string {
	switch x := it.(type) {
	case *Event:
		return trunc(x.String(p), 200)
	case *LoopS:
		return "loop at " + p.Pos(x.Pos)
	}
	return "?"
}

func (m *Matcher) cmp(what, ctx, where string, a, b *Term) bool {
	if ok, why := m.eqTerms(a, b); !ok {
		m.fail("%s [%s]: %s differs from the reference: %s\n      code: %s\n      ref:  %s", ctx, where, what, why, trunc(fmt.Sprint(a), 300), trunc(fmt.Sprint(b), 300))
		return false
	}
	return true
}

// cmpGuard compares path conditions on unconstrained inputs: the sampling shortcuts derived from equality
// preconditions (lenPrecond) would make a condition that merely restates the precondition look like `true`, and
// hide an effect that was moved in front of the refusal.
func (m *Matcher) cmpGuard(what, ctx, where string, a, b *Term) bool {
	m.Env.NoPre = true
	ok, why := m.eqTerms(a, b)
	m.Env.NoPre = false
	if !ok {
		m.fail("%s [%s]: %s differs from the reference: %s\n      code: %s\n      ref:  %s", ctx, where, what, why, trunc(fmt.Sprint(a), 300), trunc(fmt.Sprint(b), 300))
		return false
	}
	return true
}

func normType(t string) string {
	t = strings.ReplaceAll(t, "verif/checker/ref.", "")
	t = strings.ReplaceAll(t, modPath+"/fft.", "")
	t = strings.ReplaceAll(t, modPath+".", "")
	// make([]T, 32) allocates a [32]T backing array in SSA when the length is constant and a []T otherwise: the
	// length is compared separately
	t = reArrayLen.ReplaceAllString(t, "[]")
	return t
}

var reArrayLen = regexp.MustCompile(`^\[\d+\]`)

func (m *Matcher) matchEvent(a, b *Event, ctx string) {
	m.nEvents++
	where := m.posA(a)
	if a.Kind != b.Kind {
		m.fail("%s [%s]: code performs %s where the reference performs %s\n      code: %s\n      ref:  %s", ctx, where, a.Kind, b.Kind, trunc(a.String(m.PA), 240), trunc(b.String(m.PB), 240))
		return
	}
	// an allocation has no effect of its own: under which condition the object comes into being is immaterial
	// (every use of it is compared under the use's own condition)
	if a.Kind != "alloc" && !m.cmpGuard("guard (path condition) of "+a.Kind, ctx, where, a.Guard, b.Guard) {
		return
	}
	switch a.Kind {
	case "alloc":
		if normType(a.Type) != normType(b.Type) {
			m.fail("%s [%s]: allocation type %s vs %s", ctx, where, a.Type, b.Type)
		}
		if (a.Len == nil) != (b.Len == nil) || (a.Len != nil && !m.cmp("allocation length", ctx, where, a.Len, b.Len)) {
			return
		}
		m.canonSet(a.Res, b.Res, "obj:"+ctx)
	case "store", "load":
		if !m.cmp(a.Kind+" target object", ctx, where, a.Root, b.Root) {
			return
		}
		if len(a.Path) != len(b.Path) {
			m.fail("%s [%s]: access path depth differs", ctx, where)
			return
		}
		for i := range a.Path {
			if !m.cmp(fmt.Sprintf("%s index #%d", a.Kind, i), ctx, where, a.Path[i], b.Path[i]) {
				return
			}
		}
		if a.Kind == "store" {
			m.cmp("stored value", ctx, where, a.Val, b.Val)
		} else {
			m.canonSet(a.Res, b.Res, "ld:"+ctx)
		}
	case "call", "go", "defer":
		ca, cb := a.Callee, b.Callee
		if al, ok := m.GlobalAlias[ca]; ok {
			ca = al
		}
		if ca != cb {
			m.fail("%s [%s]: calls %s where the reference calls %s", ctx, where, a.Callee, b.Callee)
			return
		}
		if len(a.Args) != len(b.Args) {
			m.fail("%s [%s]: argument count differs for %s", ctx, where, a.Callee)
			return
		}
		for i := range a.Args {
			if !m.cmp(fmt.Sprintf("argument #%d of %s", i, shortName(a.Callee)), ctx, where, a.Args[i], b.Args[i]) {
				return
			}
		}
		m.canonSet(a.Res, b.Res, "call:"+ctx)
	case "return":
		if len(a.Rets) != len(b.Rets) {
			m.fail("%s [%s]: result count differs", ctx, where)
			return
		}
		for i := range a.Rets {
			m.cmp(fmt.Sprintf("returned value #%d", i), ctx, where, a.Rets[i], b.Rets[i])
		}
	default:
		if len(a.Args) != len(b.Args) {
			m.fail("%s [%s]: operand count differs for %s", ctx, where, a.Kind)
			return
		}
		for i := range a.Args {
			m.cmp(fmt.Sprintf("operand #%d of %s", i, a.Kind), ctx, where, a.Args[i], b.Args[i])
		}
		m.canonSet(a.Res, b.Res, a.Kind+":"+ctx)
	}
}

func nonAffine(l *LoopS) []*Carried {
	var out []*Carried
	for _, c := range l.Carried {
		if !c.Affine {
			out = append(out, c)
		}
	}
	return out
}

func (m *Matcher) matchLoop(a, b *LoopS, ctx string) {
	m.nLoops++
	where := m.PA.Pos(a.Pos)
	if !m.cmpGuard("loop entry condition", ctx, where, a.Guard, b.Guard) {
		return
	}
	m.deriveLoopCanon(a, b, ctx)
	if (a.Trip == nil) != (b.Trip == nil) {
		m.fail("%s [%s]: one loop is a counted loop and the other is not (code trip %v, reference trip %v)", ctx, where, a.Trip, b.Trip)
		return
	}
	if a.Trip != nil && !m.cmp("iteration count", ctx, where, a.Trip, b.Trip) {
		return
	}
	if len(a.Exits) != len(b.Exits) {
		m.fail("%s [%s]: %d loop exits vs %d in the reference", ctx, where, len(a.Exits), len(b.Exits))
		return
	}
	ca, cb := nonAffine(a), nonAffine(b)
	if len(ca) != len(cb) {
		m.fail("%s [%s]: %d loop-carried accumulators (%s) vs %d in the reference (%s)", ctx, where, len(ca), carriedNames(ca), len(cb), carriedNames(cb))
		return
	}
	// candidate partners by type and initial value
	noCand := ""
	n := len(ca)
	cand := make([][]int, n)
	for i, x := range ca {
		for j, y := range cb {
			if x.Ty != y.Ty {
				continue
			}
			m.quiet++
			ok, _ := m.eqTerms(x.Init, y.Init)
			m.quiet--
			if ok {
				cand[i] = append(cand[i], j)
			}
		}
		if len(cand[i]) == 0 && noCand == "" {
			noCand = fmt.Sprintf("%s [%s]: accumulator %s (initial value %v) has no counterpart with the same type and initial value in the reference (%s)", ctx, where, x.Name, x.Init, carriedInits(cb))
		}
	}
	// enumerate assignments
	perm := make([]int, n)
	used := make([]bool, n)
	tries := 0
	var best []string
	var rec func(i int) bool
	rec = func(i int) bool {
		if i == n {
			tries++
			if tries > 2000 {
				return false
			}
			snapCanon := map[*Symbol]string{}
			for k, v := range m.Env.Canon {
				snapCanon[k] = v
			}
			snapFails := len(m.Fails)
			for k := range ca {
				id := fmt.Sprintf("mu:%s:%d", ctx, k)
				m.canonSet(ca[k].Sym, cb[perm[k]].Sym, id)
				m.canonSet(ca[k].Fin, cb[perm[k]].Fin, "fin:"+id)
			}
			m.matchLoopBody(a, b, ca, cb, perm, ctx, where)
			if len(m.Fails) == snapFails {
				return true
			}
			if best == nil {
				best = append([]string{}, m.Fails[snapFails:]...)
			}
			m.Fails = m.Fails[:snapFails]
			m.Env.Canon = snapCanon
			return false
		}
		for _, j := range cand[i] {
			if used[j] {
				continue
			}
			used[j] = true
			perm[i] = j
			if rec(i + 1) {
				return true
			}
			used[j] = false
		}
		return false
	}
	if noCand != "" || !rec(0) {
		if noCand != "" && best == nil {
			best = []string{noCand}
		}
		// integer counters kept in a different but affinely related form (ones vs ones-zeros, 1-based vs 0-based ...)
		{
			snapAlias := map[*Symbol]*Term{}
			for k, v := range m.Env.Alias {
				snapAlias[k] = v
			}
			snapCanon := map[*Symbol]string{}
			for k, v := range m.Env.Canon {
				snapCanon[k] = v
			}
			if ra, rb, ok := m.affineAlias(a, b, ca, cb, ctx); ok {
				ca, cb = ra, rb
				n = len(ca)
				if n == len(cb) {
					cand = make([][]int, n)
					okc := true
					for i, x := range ca {
						for j, y := range cb {
							if x.Ty != y.Ty {
								continue
							}
							m.quiet++
							ok2, _ := m.eqTerms(x.Init, y.Init)
							m.quiet--
							if ok2 {
								cand[i] = append(cand[i], j)
							}
						}
						if len(cand[i]) == 0 {
							okc = false
						}
					}
					perm = make([]int, n)
					used = make([]bool, n)
					tries = 0
					if okc && rec(0) {
						return
					}
				}
			}
			m.Env.Alias = snapAlias
			m.Env.Canon = snapCanon
		}
		if best == nil {
			best = []string{fmt.Sprintf("%s [%s]: no assignment of accumulators to reference accumulators", ctx, where)}
		}
		m.Fails = append(m.Fails, best...)
	}
}

func carriedNames(cs []*Carried) string {
	var ss []string
	for _, c := range cs {
		ss = append(ss, c.Name)
	}
	sort.Strings(ss)
	return strings.Join(ss, ",")
}
func carriedInits(cs []*Carried) string {
	var ss []string
	for _, c := range cs {
		ss = append(ss, fmt.Sprintf("%s=%v", c.Name, c.Init))
	}
	return strings.Join(ss, ", ")
}

func (m *Matcher) matchLoopBody(a, b *LoopS, ca, cb []*Carried, perm []int, ctx, where string) {
	// body first: it identifies the results of loads/calls that transfer functions may mention
	m.matchRegion(a.Body, b.Body, ctx)
	if len(m.Fails) > 0 && m.quiet == 0 {
		// continue to report transfer mismatches only if body matched
	}
	for k := range ca {
		x, y := ca[k], cb[perm[k]]
		if !m.cmp("update of accumulator "+x.Name, ctx, where, x.Next, y.Next) {
			return
		}
	}
	for i := range a.Exits {
		if a.Exits[i].AtHead != b.Exits[i].AtHead {
			m.fail("%s [%s]: exit %d is tested at a different point of the iteration", ctx, where, i)
			return
		}
		if !m.cmp(fmt.Sprintf("loop exit condition #%d", i), ctx, where, a.Exits[i].Guard, b.Exits[i].Guard) {
			return
		}
	}
	m.cmp("loop continuation condition", ctx, where, a.Cont, b.Cont)
}

// affineAlias looks for integer accumulators of the two loops that are affine images of each other
// (x_B = p*x_A + r*iota + c with integer p, r): it identifies x_A canonically and defines x_B (and its
// final value) through Env.Alias. It returns the accumulators that remain to be matched.
func (m *Matcher) affineAlias(a, b *LoopS, ca, cb []*Carried, ctx string) ([]*Carried, []*Carried, bool) {
	S := m.S
	carriedSyms := func(cs []*Carried) map[*Symbol]bool {
		s := map[*Symbol]bool{}
		for _, c := range cs {
			s[c.Sym] = true
		}
		return s
	}
	sa, sb := carriedSyms(ca), carriedSyms(cb)
	// delta samples next-x for a counter (an integer accumulator, or a float accumulator moving in whole steps)
	// whose update does not involve the other accumulators and whose increment does not depend on its own value
	// (checked at two values of x per sample point)
	delta := func(c *Carried, set map[*Symbol]bool) ([]int64, bool) {
		if c.Ty != TInt && c.Ty != TFloat {
			return nil, false
		}
		if DependsOn(c.Next, func(s *Symbol) bool { return set[s] && s != c.Sym }) {
			return nil, false
		}
		var ds []int64
		saved, had := m.Env.Over[c.Sym]
		defer func() {
			if had {
				m.Env.Over[c.Sym] = saved
			} else {
				delete(m.Env.Over, c.Sym)
			}
		}()
		for k := 0; k < m.Points; k++ {
			var d [2]int64
			for w, xv := range []int64{int64(k*7 + 3), int64(1000 + k*13)} {
				m.Env.Reset(h64(m.Seed, "aff", ctx, k))
				if c.Ty == TInt {
					m.Env.Over[c.Sym] = Val{K: TInt, I: xv}
					d[w] = m.Env.Eval(c.Next).I - xv
				} else {
					m.Env.Over[c.Sym] = Val{K: TFloat, F: float64(xv)}
					f := m.Env.Eval(c.Next).F - float64(xv)
					if f != math.Trunc(f) || math.Abs(f) > 1e9 {
						return nil, false
					}
					d[w] = int64(f)
				}
			}
			if d[0] != d[1] {
				return nil, false
			}
			ds = append(ds, d[0])
		}
		return ds, true
	}
	constOf := func(t *Term) (int64, bool) {
		if v, ok := t.IntVal(); ok {
			return v, true
		}
		if f, ok := t.FloatVal(); ok && f == math.Trunc(f) && math.Abs(f) < 1e9 {
			return int64(f), true
		}
		return 0, false
	}
	usedA, usedB := map[int]bool{}, map[int]bool{}
	found := false
	for i, x := range ca {
		xs, okx := delta(x, sa)
		if !okx {
			continue
		}
		for j, y := range cb {
			if usedB[j] || usedA[i] {
				continue
			}
			if x.Ty == TFloat && y.Ty == TFloat {
				continue // float accumulators are compared as they are
			}
			ys, oky := delta(y, sb)
			if !oky {
				continue
			}
			// the integer one is the base; the other is defined through it: other = p*base + r*iota + c
			base, other, bs, os2, baseLoop := x, y, xs, ys, a
			if x.Ty != TInt {
				base, other, bs, os2, baseLoop = y, x, ys, xs, b
			}
			p, r, okFit := int64(0), int64(0), false
			for k := 1; k < len(bs); k++ {
				if bs[k] != bs[0] {
					num, den := os2[k]-os2[0], bs[k]-bs[0]
					if num%den == 0 {
						p = num / den
						r = os2[0] - p*bs[0]
						okFit = true
					}
					break
				}
			}
			if os.Getenv("VERIF_DEBUG_AFF") != "" {
				fmt.Fprintf(os.Stderr, "aff %s: %s~%s base=%v other=%v p=%d r=%d ok=%v\n", ctx, x.Name, y.Name, bs, os2, p, r, okFit)
			}
			if !okFit || p == 0 {
				continue
			}
			for k := range bs {
				if os2[k] != p*bs[k]+r {
					okFit = false
				}
			}
			if !okFit || (p == 1 && r == 0 && x.Ty == y.Ty) {
				continue // identical counters are handled by the ordinary matching
			}
			var c0 *Term
			if other.Ty == TInt {
				c0 = S.Sub(other.Init, S.MulC(base.Init, big.NewInt(p)))
			} else {
				oi, ok1 := constOf(other.Init)
				bi, ok2 := constOf(base.Init)
				if !ok1 || !ok2 {
					continue
				}
				c0 = S.Int(oi - p*bi)
			}
			id := fmt.Sprintf("mu:%s:aff%d", ctx, i)
			m.canonSet(base.Sym, nil, id)
			m.canonSet(base.Fin, nil, "fin:"+id)
			lin := func(xv, it *Term) *Term {
				l := S.Add(S.Add(S.MulC(xv, big.NewInt(p)), S.MulC(it, big.NewInt(r))), c0)
				if other.Ty == TFloat {
					return S.Op("i2f", TFloat, l)
				}
				return l
			}
			m.Env.Alias[other.Sym] = lin(S.SymTerm(base.Sym), S.SymTerm(baseLoop.Iter))
			if other.Fin != nil && base.Fin != nil {
				fi := baseLoop.final[baseLoop.Iter]
				if fi == nil {
					fi = S.SymTerm(baseLoop.IterEnd)
				}
				m.Env.Alias[other.Fin] = lin(S.SymTerm(base.Fin), fi)
			}
			usedA[i], usedB[j] = true, true
			found = true
		}
	}
	if !found {
		return nil, nil, false
	}
	var ra, rb []*Carried
	for i, x := range ca {
		if !usedA[i] {
			ra = append(ra, x)
		}
	}
	for j, y := range cb {
		if !usedB[j] {
			rb = append(rb, y)
		}
	}
	return ra, rb, true
}

func allocRun(items []interface{}) int {
	n := 0
	for _, it := range items {
		if e, ok := it.(*Event); ok && e.Kind == "alloc" {
			n++
		} else {
			break
		}
	}
	return n
}

func (m *Matcher) pairAllocs(as, bs []interface{}) ([]int, bool) {
	perm := make([]int, len(as))
	used := make([]bool, len(bs))
	for u, x := range as {
		a := x.(*Event)
		pick := -1
		// same type and length; among those, one created under the same condition is preferred (two scratch tables of
		// the same shape on exclusive paths)
		for pass := 0; pass < 2 && pick < 0; pass++ {
			for v, y := range bs {
				b := y.(*Event)
				if used[v] || normType(a.Type) != normType(b.Type) || (a.Len == nil) != (b.Len == nil) {
					continue
				}
				m.quiet++
				ok := true
				if a.Len != nil {
					ok, _ = m.eqTerms(a.Len, b.Len)
				}
				if ok && pass == 0 {
					m.valuesOnly = true
					ok, _ = m.eqTerms(a.Guard, b.Guard)
					m.valuesOnly = false
				}
				m.quiet--
				if ok {
					pick = v
					break
				}
			}
		}
		if pick < 0 {
			return nil, false
		}
		perm[u], used[pick] = pick, true
	}
	return perm, true
}

// lenPrecond: a precondition panic "len(p) != T" (p a parameter, T free of len(p)) means that every admissible
// input has len(p) == T; sampling then draws len(p) as the value of T instead of independently, so that the
// comparisons that follow are made at admissible points.
func (m *Matcher) lenPrecond(g *Term, params []*Term) {
	S := m.S
	if g == nil || g.Op != "not" || len(g.Args) != 1 || g.Args[0].Op != "eq0" {
		return
	}
	atoms, coefs, _ := linParts(g.Args[0].Args[0])
	for i, at := range atoms {
		if at.Op != "len" || len(at.Args) != 1 || at.Args[0].K != KSym {
			continue
		}
		isParam := false
		for _, p := range params {
			if p == at.Args[0] {
				isParam = true
			}
		}
		c := coefs[i].Int64()
		if !isParam || (c != 1 && c != -1) {
			continue
		}
		// L = c*len + rest = 0  =>  len = -rest/c
		rest := S.Sub(g.Args[0].Args[0], S.MulC(at, big.NewInt(c)))
		if mentions(rest, at) {
			continue
		}
		t := S.MulC(rest, big.NewInt(-c))
		if t.Op != "lin" && t.K != KConst {
			// len(p) == T with T a single quantity (a field, a parameter): T takes the length's (non-negative) value
			if _, dup := m.Env.TermOver[t]; !dup {
				m.Env.TermOver[t] = at
			}
			return
		}
		id := "len:" + m.Env.canonOf(at.Args[0].Sym)
		if _, dup := m.Env.LenAlias[id]; !dup {
			m.Env.LenAlias[id] = t
		}
		return
	}
}

func itemGuard(it interface{}) *Term {
	switch x := it.(type) {
	case *Event:
		return x.Guard
	case *LoopS:
		return x.Guard
	}
	return nil
}

func sameItemKind(a, b interface{}) bool {
	switch x := a.(type) {
	case *Event:
		y, ok := b.(*Event)
		return ok && x.Kind == y.Kind
	case *LoopS:
		_, ok := b.(*LoopS)
		return ok
	}
	return false
}

// commutingPartner returns the index (>= j) of the reference item a should be matched with: j itself unless the
// item at j runs under a different path condition and a later item of the same kind runs under a's condition and
// is exclusive with everything it would overtake.
func (m *Matcher) commutingPartner(a interface{}, ib []interface{}, j int) int {
	ga := itemGuard(a)
	if ga == nil || j >= len(ib) {
		return j
	}
	same := func(b interface{}) bool {
		gb := itemGuard(b)
		if gb == nil || !sameItemKind(a, b) {
			return false
		}
		m.quiet++
		ok, _ := m.eqTerms(ga, gb)
		m.quiet--
		return ok
	}
	if same(ib[j]) {
		return j
	}
	if os.Getenv("VERIF_DEBUG_COMM") != "" {
		fmt.Fprintf(os.Stderr, "comm: looking for partner of %s (guard %v) at j=%d\n", descItem(m.PA, a), ga, j)
	}
	for jj := j + 1; jj < len(ib) && jj < j+32; jj++ {
		if !same(ib[jj]) {
			continue
		}
		g := itemGuard(ib[jj])
		for t := j; t < jj; t++ {
			gt := itemGuard(ib[t])
			if gt == nil || !m.S.Exclusive(gt, g) {
				if os.Getenv("VERIF_DEBUG_COMM") != "" {
					fmt.Fprintf(os.Stderr, "comm: blocked by %s: %v vs %v\n", descItem(m.PB, ib[t]), gt, g)
				}
				return j
			}
		}
		return jj
	}
	return j
}

func loadRun(items []interface{}) int {
	n := 0
	for _, it := range items {
		if e, ok := it.(*Event); ok && e.Kind == "load" {
			n++
		} else {
			break
		}
	}
	return n
}

func (m *Matcher) pairLoads(as, bs []interface{}) ([]int, bool) {
	perm := make([]int, len(as))
	used := make([]bool, len(bs))
	identity := true
	for u, x := range as {
		a := x.(*Event)
		found := false
		for v, y := range bs {
			b := y.(*Event)
			if used[v] || len(a.Path) != len(b.Path) {
				continue
			}
			m.quiet++
			ok, _ := m.eqTerms(a.Guard, b.Guard)
			if ok {
				ok, _ = m.eqTerms(a.Root, b.Root)
			}
			for i := 0; ok && i < len(a.Path); i++ {
				ok, _ = m.eqTerms(a.Path[i], b.Path[i])
			}
			m.quiet--
			if ok {
				perm[u], used[v], found = v, true, true
				if u != v {
					identity = false
				}
				break
			}
		}
		if !found {
			return nil, false
		}
	}
	_ = identity
	return perm, true
}

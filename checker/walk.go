package main

// Region walk: if-conversion of the loop-collapsed CFG, event emission, loop summaries.

import (
	"fmt"
	"go/token"
	"go/types"
	"math/big"
	"os"
	"sort"
	"strings"

	"golang.org/x/tools/go/ssa"
)

// analysedFuncs records every function instance summarised during this run (for the evidence file).
var analysedFuncs = map[string][2]int{}

type termExit struct {
	Guard *Term
	Ev    *Event
	Rets  []*Term
}

type node struct {
	B *ssa.BasicBlock
	L *loopInfo
}

type edgeKey struct{ From, To *ssa.BasicBlock }

// Summarize builds the summary of fn with the given argument bindings (nil entries are symbolic).
func (x *Ext) Summarize(fn *ssa.Function, args []*Term, free []*Term) *Summary {
	sum := &Summary{Fn: fn, Top: &Region{}}
	in := &Inst{X: x, Fn: fn, Args: args, Free: free, vals: map[ssa.Value]*Term{}, cfg: x.cfgOf(fn), sum: sum, valLoop: map[ssa.Value]*LoopS{}}
	in.region = []*Region{sum.Top}
	for _, p := range fn.Params {
		sum.Params = append(sum.Params, in.val(p))
	}
	if fn.Blocks == nil {
		x.und("%s has no body", fn)
		return sum
	}
	texits := in.walkRegion(nil, nil, x.S.True)
	for _, te := range texits {
		if te.Ev.Kind == "return" {
			sum.Rets = append(sum.Rets, te.Ev)
		}
	}
	x.purify(sum)
	x.splitReturns(sum)
	sum.Top.Events(func(e *Event, _ []*LoopS) { sum.NEvents++ })
	sum.Top.AllLoops(func(l *LoopS) { sum.NLoops++ })
	sum.Undecided = append(sum.Undecided, x.Und...)
	analysedFuncs[shortFn(fn)] = [2]int{sum.NLoops, sum.NEvents}
	return sum
}

func (in *Inst) emit(e *Event) *Event {
	// selections already decided by the event's own path condition are resolved in what it uses
	if S := in.X.S; e.Guard != nil && e.Guard != S.True && e.Kind != "load" && e.Kind != "alloc" {
		e.Val = S.RestrictDeep(e.Val, e.Guard)
		for i := range e.Args {
			e.Args[i] = S.RestrictDeep(e.Args[i], e.Guard)
		}
		for i := range e.Rets {
			e.Rets[i] = S.RestrictDeep(e.Rets[i], e.Guard)
		}
	}
	in.X.nseq++
	e.Seq = in.X.nseq
	e.Fn = in.Fn
	e.Loop = in.curLoop()
	if e.Instr != nil && !e.Pos.IsValid() {
		e.Pos = e.Instr.Pos()
	}
	r := in.region[len(in.region)-1]
	r.Items = append(r.Items, e)
	return e
}

func (in *Inst) nodeOf(b *ssa.BasicBlock, L *loopInfo) (node, bool) {
	inner := in.cfg.Inner[b]
	if L != nil && !L.Blocks[b] {
		return node{}, false
	}
	if inner == L {
		return node{B: b}, true
	}
	c := inner
	for c != nil && c.Parent != L {
		c = c.Parent
	}
	if c == nil {
		return node{}, false
	}
	return node{L: c}, true
}

func (in *Inst) nodeSuccs(n node, L *loopInfo) []*ssa.BasicBlock {
	if n.B != nil {
		return n.B.Succs
	}
	var out []*ssa.BasicBlock
	var bs []*ssa.BasicBlock
	for b := range n.L.Blocks {
		bs = append(bs, b)
	}
	sort.Slice(bs, func(i, j int) bool { return bs[i].Index < bs[j].Index })
	for _, b := range bs {
		for _, s := range b.Succs {
			if !n.L.Blocks[s] {
				out = append(out, s)
			}
		}
	}
	return out
}

// topo order of the region's nodes
func (in *Inst) topo(L *loopInfo, entry *ssa.BasicBlock) []node {
	var order []node
	seen := map[node]bool{}
	var visit func(n node)
	visit = func(n node) {
		seen[n] = true
		succs := in.nodeSuccs(n, L)
		// visit in reverse so that the final reversed postorder keeps source order
		for i := len(succs) - 1; i >= 0; i-- {
			s := succs[i]
			if L != nil && s == L.Header {
				continue // back edge
			}
			m, ok := in.nodeOf(s, L)
			if !ok {
				continue // exit
			}
			if m == n {
				continue
			}
			if !seen[m] {
				visit(m)
			}
		}
		order = append(order, n)
	}
	en, _ := in.nodeOf(entry, L)
	visit(en)
	for i, j := 0, len(order)-1; i < j; i, j = i+1, j-1 {
		order[i], order[j] = order[j], order[i]
	}
	return order
}

type regionState struct {
	L       *loopInfo
	LS      *LoopS
	pcIn    map[node]*Term
	edgeG   map[edgeKey]*Term
	edgeFin map[edgeKey][]*LoopS // loops whose final substitution applies to values flowing along the edge
	backs   []backEdge
	exits   []*Exit
	exitCells []map[*Symbol]*Term
	tex     []termExit
	cur     *ssa.BasicBlock
}

type backEdge struct {
	G     *Term
	From  *ssa.BasicBlock
	cells map[*Symbol]*Term
}

func (in *Inst) snapshotCells() map[*Symbol]*Term {
	m := map[*Symbol]*Term{}
	for k, v := range in.X.cellCur {
		m[k] = v
	}
	return m
}

// walkRegion walks the body of loop L (or the whole function when L == nil).
func (in *Inst) walkRegion(L *loopInfo, LS *LoopS, entryPC *Term) []termExit {
	S := in.X.S
	rs := &regionState{L: L, LS: LS, pcIn: map[node]*Term{}, edgeG: map[edgeKey]*Term{}, edgeFin: map[edgeKey][]*LoopS{}}
	var entry *ssa.BasicBlock
	if L == nil {
		entry = in.Fn.Blocks[0]
	} else {
		entry = L.Header
	}
	order := in.topo(L, entry)
	en, _ := in.nodeOf(entry, L)
	rs.pcIn[en] = entryPC

	addEdge := func(from, to *ssa.BasicBlock, g *Term, fin []*LoopS) {
		if g == S.False {
			return
		}
		if L != nil && to == L.Header {
			rs.backs = append(rs.backs, backEdge{G: g, From: from, cells: in.snapshotCells()})
			rs.edgeG[edgeKey{from, to}] = g
			rs.edgeFin[edgeKey{from, to}] = fin
			return
		}
		m, ok := in.nodeOf(to, L)
		if !ok {
			ex := &Exit{Guard: g, From: from, Target: to}
			rs.exits = append(rs.exits, ex)
			rs.exitCells = append(rs.exitCells, in.snapshotCells())
			rs.edgeFin[edgeKey{from, to}] = fin
			return
		}
		k := edgeKey{from, to}
		if old, ok := rs.edgeG[k]; ok {
			rs.edgeG[k] = S.Canon(S.Or(old, g))
		} else {
			rs.edgeG[k] = g
		}
		rs.edgeFin[k] = fin
		if old, ok := rs.pcIn[m]; ok {
			rs.pcIn[m] = S.Canon(S.Or(old, g))
		} else {
			rs.pcIn[m] = g
		}
	}

	for _, n := range order {
		g, ok := rs.pcIn[n]
		if !ok || g == S.False {
			continue
		}
		if n.B != nil {
			b := n.B
			rs.cur = b
			in.curB = b
			isHeader := L != nil && b == L.Header
			if !isHeader {
				in.joinPhis(b, rs)
			}
			evBefore := len(in.region[len(in.region)-1].Items)
			for _, instr := range b.Instrs {
				switch t := instr.(type) {
				case *ssa.Phi:
					continue
				case *ssa.If:
					c := in.use(t.Cond, b)
					addEdge(b, b.Succs[0], S.Canon(S.And(g, c)), nil)
					addEdge(b, b.Succs[1], S.Canon(S.And(g, S.Not(c))), nil)
				case *ssa.Jump:
					addEdge(b, b.Succs[0], g, nil)
				case *ssa.Return:
					ev := &Event{Kind: "return", Guard: g, Instr: t}
					for _, r := range t.Results {
						ev.Rets = append(ev.Rets, in.use(r, b))
					}
					in.emit(ev)
					rs.tex = append(rs.tex, termExit{Guard: g, Ev: ev, Rets: ev.Rets})
				case *ssa.Panic:
					ev := &Event{Kind: "panic", Guard: g, Instr: t, Args: []*Term{in.use(t.X, b)}}
					in.emit(ev)
					rs.tex = append(rs.tex, termExit{Guard: g, Ev: ev})
				default:
					in.instr(instr, g, b)
					if in.narrow != nil {
						// an inlined callee that may panic: what follows runs only if it returned
						g = in.narrow
						in.narrow = nil
					}
				}
			}
			if isHeader && LS != nil {
				// live items only: the return of an inlined helper is bookkeeping, not an event of the iteration
				n := 0
				for _, it := range in.region[len(in.region)-1].Items[evBefore:] {
					if e, ok := it.(*Event); ok && e.Dead {
						continue
					}
					n++
				}
				LS.HeadEvents = n
			}
		} else {
			// child loop
			child := n.L
			cls, ctex := in.doLoop(child, LS, g)
			multi := len(cls.Exits)+len(ctex) > 1
			for i, ex := range cls.Exits {
				eg := g
				if multi {
					ex.Sym = in.newSym(SExit, fmt.Sprintf("L%dexit%d", cls.ID, i), TBool)
					ex.Sym.Loop = cls
					ex.Sym.Idx = i
					eg = S.Canon(S.And(g, S.SymTerm(ex.Sym)))
				}
				// restore the cell state seen by this exit
				in.restoreExitCells(cls, i, multi)
				addEdge(ex.From, ex.Target, eg, []*LoopS{cls})
			}
			in.mergeExitCells(cls, multi)
			for i, te := range ctex {
				eg := g
				if multi {
					sy := in.newSym(SExit, fmt.Sprintf("L%dtexit%d", cls.ID, i), TBool)
					sy.Loop = cls
					sy.Idx = len(cls.Exits) + i
					eg = S.Canon(S.And(g, S.SymTerm(sy)))
				}
				var rets []*Term
				for _, r := range te.Rets {
					rets = append(rets, in.finalSubst(r, cls))
				}
				rs.tex = append(rs.tex, termExit{Guard: eg, Ev: te.Ev, Rets: rets})
			}
		}
	}
	if LS != nil {
		LS.Exits = rs.exits
		in.finishLoop(LS, rs)
	}
	return rs.tex
}

// use returns the term of v as seen from block `at` (applying loop-final substitutions when v is
// defined inside a loop that does not contain `at`).
func (in *Inst) use(v ssa.Value, at *ssa.BasicBlock) *Term {
	t := in.valRaw(v)
	instr, ok := v.(ssa.Instruction)
	if !ok || instr.Block() == nil || instr.Block().Parent() != in.Fn {
		return t
	}
	db := instr.Block()
	for l := in.cfg.Inner[db]; l != nil; l = l.Parent {
		if at != nil && l.Blocks[at] {
			break
		}
		ls := in.loopSOf(l)
		if ls != nil {
			t = in.finalSubst(t, ls)
		}
	}
	return t
}

var loopSByInfo = map[*Inst]map[*loopInfo]*LoopS{}

func (in *Inst) loopSOf(l *loopInfo) *LoopS {
	m := loopSByInfo[in]
	if m == nil {
		return nil
	}
	return m[l]
}

func (in *Inst) joinPhis(b *ssa.BasicBlock, rs *regionState) {
	S := in.X.S
	for _, instr := range b.Instrs {
		phi, ok := instr.(*ssa.Phi)
		if !ok {
			break
		}
		var cases []muxCase
		for i, p := range b.Preds {
			k := edgeKey{p, b}
			g, ok := rs.edgeG[k]
			if !ok {
				continue
			}
			v := in.use(phi.Edges[i], p)
			for _, ls := range rs.edgeFin[k] {
				v = in.finalSubst(v, ls)
			}
			cases = append(cases, muxCase{g, v})
		}
		if len(cases) == 0 {
			in.vals[phi] = S.SymTerm(in.newSym(SOpaque, "deadphi", tyClass(phi.Type())))
			continue
		}
		in.vals[phi] = S.Mux(cases, tyClass(phi.Type()))
	}
}

// ---- loops ----

func (in *Inst) doLoop(l *loopInfo, parent *LoopS, entryG *Term) (*LoopS, []termExit) {
	S := in.X.S
	in.X.nloop++
	ls := &LoopS{ID: in.X.nloop, Fn: in.Fn, Info: l, Guard: entryG, Body: &Region{}, Parent: in.curLoop(), final: map[*Symbol]*Term{}}
	if len(l.Header.Instrs) > 0 {
		ls.Pos = l.Header.Instrs[0].Pos()
		for _, i := range l.Header.Instrs {
			if i.Pos().IsValid() {
				ls.Pos = i.Pos()
				break
			}
		}
	}
	if !ls.Pos.IsValid() {
		var bs []*ssa.BasicBlock
		for b := range l.Blocks {
			bs = append(bs, b)
		}
		sort.Slice(bs, func(i, j int) bool { return bs[i].Index < bs[j].Index })
	outer:
		for _, b := range bs {
			for _, i := range b.Instrs {
				if i.Pos().IsValid() {
					ls.Pos = i.Pos()
					break outer
				}
			}
		}
	}
	if loopSByInfo[in] == nil {
		loopSByInfo[in] = map[*loopInfo]*LoopS{}
	}
	loopSByInfo[in][l] = ls
	cur := in.region[len(in.region)-1]
	cur.Items = append(cur.Items, ls)

	// carried: header phis
	var phis []*ssa.Phi
	for _, instr := range l.Header.Instrs {
		if phi, ok := instr.(*ssa.Phi); ok {
			phis = append(phis, phi)
		} else {
			break
		}
	}
	in.loops = append(in.loops, ls)
	in.region = append(in.region, ls.Body)
	ls.Iter = in.newSym(SIter, fmt.Sprintf("i%d", ls.ID), TInt)
	ls.Iter.Loop = ls
	ls.IterEnd = in.newSym(SIterEnd, fmt.Sprintf("iend%d", ls.ID), TInt)
	ls.IterEnd.Loop = ls.Parent
	ls.IterEnd.Obj = ls

	for _, phi := range phis {
		// initial value: mux over entries from outside the loop (normally exactly one)
		var init *Term
		for i, p := range l.Header.Preds {
			if l.Blocks[p] {
				continue
			}
			v := in.use(phi.Edges[i], p)
			if init == nil {
				init = v
			} else if init != v {
				in.X.und("%s: loop at %s has several entry values for %s", in.Fn, in.X.P.Pos(ls.Pos), phi.Name())
			}
		}
		if init == nil {
			in.X.und("%s: loop header phi %s without entry", in.Fn, phi.Name())
			init = S.SymTerm(in.newSym(SOpaque, "noinit", tyClass(phi.Type())))
		}
		ty := tyClass(phi.Type())
		if init.Op == "slice" || isSliceType(phi.Type()) {
			// decompose slice-typed carried values into (root, off, len)
			root, off, ln := in.sliceParts(init)
			co := &Carried{Sym: in.newSym(SLoopVar, phi.Comment+".off", TInt), Init: off, Phi: phi, Ty: TInt, Name: phi.Comment + ".off"}
			cl := &Carried{Sym: in.newSym(SLoopVar, phi.Comment+".len", TInt), Init: ln, Phi: phi, Ty: TInt, Name: phi.Comment + ".len"}
			co.Sym.Loop, cl.Sym.Loop = ls, ls
			ls.Carried = append(ls.Carried, co, cl)
			in.vals[phi] = S.mkOp("slice", TRef, root, S.SymTerm(co.Sym), S.SymTerm(cl.Sym))
			continue
		}
		c := &Carried{Sym: in.newSym(SLoopVar, phi.Comment, ty), Init: init, Phi: phi, Ty: ty, Name: phi.Comment}
		c.Sym.Loop = ls
		ls.Carried = append(ls.Carried, c)
		in.vals[phi] = S.SymTerm(c.Sym)
	}
	// carried: cells stored inside the loop
	for _, cell := range in.cellsStoredIn(l) {
		cur, ok := in.X.cellCur[cell]
		if !ok {
			continue
		}
		if cur.Op == "slice" || (cell.Attr != nil && cell.Attr["slicecell"] != nil) {
			// a slice-valued cell (the unread rest of the input kept in a scanner object): window start and length
			root, off, ln := in.sliceParts(cur)
			co := &Carried{Sym: in.newSym(SLoopVar, cell.Name+".off", TInt), Init: off, Cell: cell, Ty: TInt, Name: cell.Name + ".off"}
			cl := &Carried{Sym: in.newSym(SLoopVar, cell.Name+".len", TInt), Init: ln, Cell: cell, Ty: TInt, Name: cell.Name + ".len"}
			co.Sym.Loop, cl.Sym.Loop = ls, ls
			ls.Carried = append(ls.Carried, co, cl)
			in.X.cellCur[cell] = S.mkOp("slice", TRef, root, S.SymTerm(co.Sym), S.SymTerm(cl.Sym))
			continue
		}
		c := &Carried{Sym: in.newSym(SLoopVar, cell.Name, cur.Ty), Init: cur, Cell: cell, Ty: cur.Ty, Name: cell.Name}
		c.Sym.Loop = ls
		ls.Carried = append(ls.Carried, c)
		in.X.cellCur[cell] = S.SymTerm(c.Sym)
	}

	tex := in.walkRegion(l, ls, S.True)

	in.region = in.region[:len(in.region)-1]
	in.loops = in.loops[:len(in.loops)-1]
	return ls, tex
}

func isSliceType(t types.Type) bool {
	_, ok := t.Underlying().(*types.Slice)
	return ok
}

// finishLoop computes next values, affine induction variables, trip count and the final map.
func (in *Inst) finishLoop(ls *LoopS, rs *regionState) {
	S := in.X.S
	l := ls.Info
	// continue guard
	cont := S.False
	for _, be := range rs.backs {
		cont = S.Or(cont, be.G)
	}
	ls.Cont = S.Canon(cont)
	// next values
	for _, c := range ls.Carried {
		var cases []muxCase
		for _, be := range rs.backs {
			var v *Term
			if c.Phi != nil {
				idx := -1
				for i, p := range l.Header.Preds {
					if p == be.From {
						idx = i
					}
				}
				if idx < 0 {
					continue
				}
				v = in.use(c.Phi.Edges[idx], be.From)
				for _, fl := range rs.edgeFin[edgeKey{be.From, l.Header}] {
					v = in.finalSubst(v, fl)
				}
				if strings.HasSuffix(c.Name, ".off") && (v.Op == "slice" || isSliceType(c.Phi.Type())) {
					_, off, _ := in.sliceParts(v)
					v = off
				} else if strings.HasSuffix(c.Name, ".len") && (v.Op == "slice" || isSliceType(c.Phi.Type())) {
					_, _, ln := in.sliceParts(v)
					v = ln
				}
			} else {
				v = be.cells[c.Cell]
				if v != nil {
					for _, fl := range rs.edgeFin[edgeKey{be.From, l.Header}] {
						v = in.finalSubst(v, fl)
					}
					// stores were recorded under their block's path condition, which the back edge implies
					v = S.RestrictDeep(v, be.G)
					if isOff, isLen := c.Name == c.Cell.Name+".off", c.Name == c.Cell.Name+".len"; isOff || isLen {
						if v.Op != "slice" {
							in.X.und("%s: slice-valued cell %s takes a value that is not a window of a known object", in.Fn, c.Cell.Name)
							continue
						}
						_, off, ln := in.sliceParts(v)
						if isOff {
							v = off
						} else {
							v = ln
						}
					}
				}
			}
			if v == nil {
				continue
			}
			cases = append(cases, muxCase{be.G, v})
		}
		if len(cases) == 0 {
			c.Next = S.SymTerm(c.Sym)
		} else {
			c.Next = S.Mux(cases, c.Ty)
		}
	}
	// affine induction variables
	inLoop := func(sy *Symbol) bool {
		if sy.Loop != nil && sy.Loop.inside(ls) {
			return true
		}
		return false
	}
	sub := map[*Symbol]*Term{}
	iter := S.SymTerm(ls.Iter)
	for _, c := range ls.Carried {
		if c.Ty != TInt {
			continue
		}
		step := S.Sub(c.Next, S.SymTerm(c.Sym))
		if os.Getenv("VERIF_DEBUG_AFFC") != "" && c.Cell != nil {
			fmt.Fprintf(os.Stderr, "affine? %s next=%v step=%v\n", c.Name, c.Next, step)
		}
		if DependsOn(step, inLoop) {
			// a position that is advanced by one and wraps to 0 on reaching N (the cyclic extension of a sequence walked
			// with a running index instead of i % N): x_k = (x_0 + k) % N, for x_0 in (-N, N)
			if cf := wrapClosedForm(S, c, iter, inLoop); cf != nil {
				c.Affine = true
				c.Step = S.Int(1)
				sub[c.Sym] = cf
			}
			continue
		}
		c.Affine = true
		c.Step = step
		if sv, ok := step.IntVal(); ok {
			sub[c.Sym] = S.Add(c.Init, S.MulC(iter, big.NewInt(sv)))
		} else {
			sub[c.Sym] = S.Add(c.Init, S.MulI(step, iter))
		}
	}
	if len(sub) > 0 {
		memo := map[*Term]*Term{}
		f := func(t *Term) *Term { return S.Subst(t, sub, memo) }
		// the loop's own structures (not Init, which lives outside)
		for _, c := range ls.Carried {
			c.Next = f(c.Next)
		}
		ls.Cont = f(ls.Cont)
		for _, x := range ls.Exits {
			x.Guard = f(x.Guard)
		}
		ls.Body.MapTerms(f)
		for k, v := range in.vals {
			in.vals[k] = f(v)
		}
		for k, v := range in.X.cellCur {
			in.X.cellCur[k] = f(v)
		}
		for k, v := range in.X.objAlias {
			in.X.objAlias[k] = f(v)
		}
		for _, m := range rs.exitCells {
			for k, v := range m {
				m[k] = f(v)
			}
		}
		for i := range rs.tex {
			rs.tex[i].Guard = f(rs.tex[i].Guard)
			for j := range rs.tex[i].Rets {
				rs.tex[i].Rets[j] = f(rs.tex[i].Rets[j])
			}
		}
	}
	ls.exitCellSnap = rs.exitCells
	// exits at the head
	for _, x := range ls.Exits {
		x.AtHead = x.From == l.Header && ls.HeadEvents == 0
		x.Guard = S.Canon(x.Guard)
	}
	// trip count (exact when the head exit is the only exit; otherwise an upper bound)
	var headExit *Exit
	for _, x := range ls.Exits {
		if x.AtHead && x.From == l.Header {
			headExit = x
			break
		}
	}
	if headExit != nil {
		exact := len(ls.Exits) == 1 && len(rs.tex) == 0
		ls.HeadExact = exact
		contG := S.Not(headExit.Guard)
		// `i != N` with i = k (counting up from 0 by one) and N >= 0 is `i < N` on every value i takes
		if contG.Op == "not" && contG.Args[0].Op == "eq0" {
			d := contG.Args[0].Args[0]
			for _, cand := range []*Term{S.Sub(d, iter), S.Add(d, iter)} {
				// d = iter + rest (N = -rest)   or   d = -iter + rest (N = rest)
				if DependsOn(cand, func(sy *Symbol) bool { return sy == ls.Iter }) || DependsOn(cand, inLoop) {
					continue
				}
				n := cand
				if cand == S.Sub(d, iter) {
					n = S.Neg(cand)
				}
				if nonNeg(n) {
					lt := S.Cmp("<", iter, n)
					if lt.Op == "le0" {
						// i == N is i >= N wherever the loop's own terms mention it (i never exceeds N)
						memo := map[*Term]*Term{contG.Args[0]: S.Not(lt)}
						f := func(t *Term) *Term { return S.Subst(t, map[*Symbol]*Term{}, memo) }
						contG = lt
						for _, c := range ls.Carried {
							c.Next = f(c.Next)
						}
						ls.Cont = S.Canon(f(ls.Cont))
						for _, x := range ls.Exits {
							x.Guard = S.Canon(f(x.Guard))
						}
						ls.Body.MapTerms(f)
						for i := range rs.tex {
							rs.tex[i].Guard = f(rs.tex[i].Guard)
						}
					}
					break
				}
			}
		}
		if contG.Op == "le0" {
			d := contG.Args[0]
			atoms, coefs, off := linParts(d)
			var s *big.Int
			rest := S.linMake(nil, nil, off)
			for i, a := range atoms {
				if a == iter {
					s = coefs[i]
				} else {
					rest = S.Add(rest, S.MulC(a, coefs[i]))
				}
			}
			if s != nil && s.Sign() > 0 && !DependsOn(rest, inLoop) {
				var n *Term
				if s.Cmp(big.NewInt(1)) == 0 {
					n = S.Sub(S.Int(1), rest)
				} else {
					n = S.Add(S.Op("floordiv", TInt, S.Neg(rest), S.Int(s.Int64())), S.Int(1))
				}
				var tr *Term
				if v, ok := n.IntVal(); ok {
					if v < 0 {
						v = 0
					}
					tr = S.Int(v)
				} else {
					tr = S.Op("max0", TInt, n)
				}
				ls.Bound = tr
				if exact {
					ls.Trip = tr
				}
			}
		}
	}
	// final map
	if ls.Trip != nil {
		ls.final[ls.Iter] = ls.Trip
	} else {
		ls.final[ls.Iter] = S.SymTerm(ls.IterEnd)
	}
	for _, c := range ls.Carried {
		if c.Affine {
			continue
		}
		c.Fin = in.X.S.NewSym(SOut, "fin_"+c.Name, c.Ty)
		c.Fin.Loop = ls.Parent
		c.Fin.Idx = -1
		c.Fin.Obj = c
		ls.final[c.Sym] = S.SymTerm(c.Fin)
	}
}

// wrapClosedForm recognises next = (x+1 == N || x+1 >= N) ? 0 : x+1 with N loop-invariant and an initial value known
// to lie in (-N, N) with N > 0: written as _ % N (N == 0 would already have panicked; N is a length, so not negative),
// or the constant 0 with N known positive. Truncated remainder: for x_0 in (-N, 0) the values x_0, x_0+1, .., -1, 0, 1, ..
// are exactly (x_0 + k) % N as well.
func wrapClosedForm(S *Store, c *Carried, iter *Term, inLoop func(*Symbol) bool) *Term {
	return wrapClosedFormIn(S, c, iter, inLoop, nil)
}

// wrapClosedFormIn: inRange (optional) decides further initial values known to lie in [0, N).
func wrapClosedFormIn(S *Store, c *Carried, iter *Term, inLoop func(*Symbol) bool, inRange func(init, N *Term) bool) *Term {
	nx := c.Next
	if nx == nil || nx.Op != "ite" || c.Init == nil {
		return nil
	}
	self := S.SymTerm(c.Sym)
	inc := S.Add(self, S.Int(1))
	cond, a, b := nx.Args[0], nx.Args[1], nx.Args[2]
	zero := S.Int(0)
	var wrap *Term
	switch {
	case a == zero && b == inc:
		wrap = cond
	case b == zero && a == inc:
		wrap = S.Not(cond)
	default:
		return nil
	}
	isSelf := func(sy *Symbol) bool { return sy == c.Sym }
	var N *Term
	switch wrap.Op {
	case "eq0":
		for _, cand := range []*Term{S.Sub(inc, wrap.Args[0]), S.Add(inc, wrap.Args[0])} {
			if !DependsOn(cand, isSelf) {
				N = cand
			}
		}
	case "le0": // N - x - 1 <= 0
		if cand := S.Add(wrap.Args[0], inc); !DependsOn(cand, isSelf) {
			N = cand
		}
	}
	if N == nil || DependsOn(N, inLoop) || !nonNeg(N) {
		return nil
	}
	okInit := false
	if c.Init.Op == "imod" && c.Init.Args[1] == N {
		okInit = true
	}
	if v, ok := c.Init.IntVal(); ok && v == 0 && isPos(N) {
		okInit = true
	}
	if !okInit && inRange != nil && inRange(c.Init, N) {
		okInit = true
	}
	if !okInit {
		return nil
	}
	return S.Op("imod", TInt, S.Add(c.Init, iter), N)
}

// finalSubst maps a term over the symbols of loop ls to its value after the loop.
func (in *Inst) finalSubst(t *Term, ls *LoopS) *Term {
	S := in.X.S
	if t == nil {
		return nil
	}
	// symbols created inside the loop (event results, objects) become opaque out-symbols
	need := false
	Walk(t, map[*Term]bool{}, func(x *Term) {
		if x.K == KSym && x.Sym.Loop != nil && x.Sym.Loop.inside(ls) {
			if _, ok := ls.final[x.Sym]; !ok {
				o := S.NewSym(SOut, "out_"+x.Sym.Name, x.Sym.Ty)
				o.Loop = ls.Parent
				o.Obj = x.Sym
				ls.final[x.Sym] = S.SymTerm(o)
			}
			need = true
		}
	})
	if !need {
		return t
	}
	return S.Subst(t, ls.final, map[*Term]*Term{})
}

// ---- cells ----

func (in *Inst) cellSym(a *ssa.Alloc) *Symbol { return in.X.objOf[a] }

// fieldCellable: a struct local with scalar / reference fields (no nested aggregates) whose address is only used to
// reach its fields (read or written one at a time) or handed, as a plain argument, to static in-module callees that will
// be inlined and use it in the same way. Such an object is just the bundle of its fields.
func (in *Inst) fieldCellable(a *ssa.Alloc) bool {
	st, ok := deref(a.Type()).Underlying().(*types.Struct)
	if !ok || st.NumFields() == 0 {
		return false
	}
	for i := 0; i < st.NumFields(); i++ {
		if isAggregate(st.Field(i).Type()) {
			return false
		}
	}
	seen := map[ssa.Value]bool{}
	var okUse func(v ssa.Value, depth int) bool
	cur := in // the instance whose code v belongs to while it is one being walked (nil inside callees not yet inlined)
	okUse = func(v ssa.Value, depth int) bool {
		if seen[v] {
			return true
		}
		seen[v] = true
		refs := v.Referrers()
		if refs == nil {
			return false
		}
		for _, r := range *refs {
			switch r := r.(type) {
			case *ssa.DebugRef:
			case *ssa.UnOp:
				// the whole value read at once (handed to a value-receiver method): the tuple of its fields
				if r.Op != token.MUL {
					return false
				}
			case *ssa.Store:
				// the whole value written at once: only from another bundle, a bundle passed by value, or zero
				if r.Addr != v {
					return false
				}
				switch sv := r.Val.(type) {
				case *ssa.Const:
				case *ssa.Call:
					// the result of a call: a bundle built by an inlined callee, or an opaque value whose fields are
					// selected from it
				case *ssa.UnOp:
					src, isAl := sv.X.(*ssa.Alloc)
					if sv.Op != token.MUL || !isAl {
						return false
					}
					if src == a {
						continue // `return f, err` on a named result: f = f
					}
					// the source bundle may be allocated later in the walk (a composite literal assigned to a named
					// result declared at entry): decide it on its own merits
					if in.X.objOf[src] == nil || in.X.fieldCells[in.X.objOf[src]] == nil {
						if in.cellableBusy == nil {
							in.cellableBusy = map[*ssa.Alloc]bool{}
						}
						if in.cellableBusy[src] || src.Parent() != a.Parent() {
							return false
						}
						in.cellableBusy[a] = true
						ok := in.fieldCellable(src)
						delete(in.cellableBusy, a)
						if !ok {
							return false
						}
					}
				case *ssa.Parameter:
					idx := -1
					for i, p := range sv.Parent().Params {
						if p == sv {
							idx = i
						}
					}
					if depth != 0 || sv.Parent() != in.Fn || idx < 0 || idx >= len(in.Args) || in.Args[idx] == nil || in.Args[idx].Op != "mkstruct" {
						return false
					}
				default:
					return false
				}
			case *ssa.FieldAddr:
				if r.X != v {
					return false
				}
				fr := r.Referrers()
				if fr == nil {
					return false
				}
				for _, u := range *fr {
					switch u := u.(type) {
					case *ssa.DebugRef:
					case *ssa.UnOp:
						if u.Op != token.MUL {
							return false
						}
					case *ssa.Store:
						if u.Addr != ssa.Value(r) {
							return false
						}
					default:
						return false
					}
				}
			case *ssa.Return:
				// a constructor handing the object to its (inlining) caller: the caller's uses decide
				if cur == nil || cur.Parent == nil || cur.callSite == nil || depth != 0 || len(r.Results) != 1 {
					return false
				}
				save := cur
				cur = cur.Parent
				ok := okUse(save.callSite, 0)
				cur = save
				if !ok {
					return false
				}
			case *ssa.Call:
				c := r.Common()
				callee := c.StaticCallee()
				if c.IsInvoke() || callee == nil || !inModule(callee) || callee.Blocks == nil || depth >= 3 || in.depth+depth+1 >= in.X.Cfg.MaxDepth {
					return false
				}
				if in.X.Cfg.Opaque != nil {
					if opq, _ := in.X.Cfg.Opaque(callee); opq {
						return false
					}
				}
				if in.onStack(callee) || c.Value == v {
					return false
				}
				for i, arg := range c.Args {
					if arg != v {
						continue
					}
					save := cur
					cur = nil
					ok := i < len(callee.Params) && okUse(callee.Params[i], depth+1)
					cur = save
					if !ok {
						return false
					}
				}
			default:
				return false
			}
		}
		return true
	}
	r := okUse(a, 0)
	if os.Getenv("VERIF_DEBUG_FC") != "" {
		fmt.Fprintf(os.Stderr, "fieldCellable %s %s in %s: %v\n", a.Name(), a.Comment, in.Fn, r)
	}
	return r
}

// fieldCellsStoredIn: the field cells of live bundled structs that code reachable from the blocks bs may store to
// (decided by struct type and field index: an over-approximation by type).
func (in *Inst) fieldCellsStoredIn(bs []*ssa.BasicBlock, add func(*Symbol)) {
	if len(in.X.fieldCells) == 0 {
		return
	}
	type key struct {
		t types.Type
		f int
	}
	stored := map[key]bool{}
	seenFn := map[*ssa.Function]bool{}
	var scan func(blocks []*ssa.BasicBlock, depth int)
	scan = func(blocks []*ssa.BasicBlock, depth int) {
		for _, b := range blocks {
			for _, instr := range b.Instrs {
				switch t := instr.(type) {
				case *ssa.Store:
					if fa, ok := t.Addr.(*ssa.FieldAddr); ok {
						stored[key{deref(fa.X.Type()), fa.Field}] = true
					}
				case ssa.CallInstruction:
					if callee := t.Common().StaticCallee(); callee != nil && inModule(callee) && callee.Blocks != nil && !seenFn[callee] && depth < 6 {
						seenFn[callee] = true
						scan(callee.Blocks, depth+1)
					}
				}
			}
		}
	}
	scan(bs, 0)
	if len(stored) == 0 {
		return
	}
	var objs []*Symbol
	for o := range in.X.fieldCells {
		objs = append(objs, o)
	}
	sort.Slice(objs, func(i, j int) bool { return objs[i].uid < objs[j].uid })
	for _, o := range objs {
		al, ok := o.Obj.(*ssa.Alloc)
		if !ok {
			continue
		}
		for i, c := range in.X.fieldCells[o] {
			if stored[key{deref(al.Type()), i}] {
				add(c)
			}
		}
	}
}

func isCellAlloc(a *ssa.Alloc) bool {
	if isAggregate(deref(a.Type())) {
		// struct/array allocations are objects
		return false
	}
	refs := a.Referrers()
	if refs == nil {
		return false
	}
	for _, r := range *refs {
		switch r := r.(type) {
		case *ssa.Store:
			if r.Addr != a {
				return false
			}
		case *ssa.UnOp:
		case *ssa.MakeClosure:
		case *ssa.DebugRef:
		default:
			return false
		}
	}
	return true
}

func deref(t types.Type) types.Type {
	if p, ok := t.Underlying().(*types.Pointer); ok {
		return p.Elem()
	}
	return t
}

// cellsStoredIn lists live cells that may be stored inside loop l (directly or by a closure called in it).
func (in *Inst) cellsStoredIn(l *loopInfo) []*Symbol {
	seen := map[*Symbol]bool{}
	var out []*Symbol
	add := func(sy *Symbol) {
		if sy != nil && !seen[sy] {
			seen[sy] = true
			out = append(out, sy)
		}
	}
	var scanFn func(fn *ssa.Function, free []*Term, depth int)
	scanBlockInstr := func(instr ssa.Instruction, resolve func(v ssa.Value) *Symbol, depth int) {
		switch t := instr.(type) {
		case *ssa.Store:
			add(resolve(t.Addr))
		case ssa.CallInstruction:
			c := t.Common()
			if mc, ok := c.Value.(*ssa.MakeClosure); ok && depth < 4 {
				fn := mc.Fn.(*ssa.Function)
				var free []*Term
				for _, b := range mc.Bindings {
					if sy := resolve(b); sy != nil {
						free = append(free, in.X.S.SymTerm(sy))
					} else {
						free = append(free, nil)
					}
				}
				scanFn(fn, free, depth+1)
			}
		}
	}
	scanFn = func(fn *ssa.Function, free []*Term, depth int) {
		res := func(v ssa.Value) *Symbol {
			if fv, ok := v.(*ssa.FreeVar); ok {
				for i, f := range fn.FreeVars {
					if f == fv && i < len(free) && free[i] != nil && free[i].K == KSym {
						return free[i].Sym
					}
				}
			}
			return nil
		}
		for _, b := range fn.Blocks {
			for _, instr := range b.Instrs {
				scanBlockInstr(instr, res, depth)
			}
		}
	}
	resolve := func(v ssa.Value) *Symbol {
		switch a := v.(type) {
		case *ssa.Alloc:
			if sy := in.X.objOf[a]; sy != nil && sy.Kind == SObj && sy.Attr != nil && sy.Attr["cell"] != nil {
				return sy
			}
		case *ssa.FreeVar:
			t := in.val(a)
			if t.K == KSym && t.Sym.Attr != nil && t.Sym.Attr["cell"] != nil {
				return t.Sym
			}
		}
		return nil
	}
	var bs []*ssa.BasicBlock
	for b := range l.Blocks {
		bs = append(bs, b)
	}
	sort.Slice(bs, func(i, j int) bool { return bs[i].Index < bs[j].Index })
	for _, b := range bs {
		for _, instr := range b.Instrs {
			scanBlockInstr(instr, resolve, 0)
			// static in-module callees that will be inlined may store to cells passed by free var only via closures; handled above
		}
	}
	in.fieldCellsStoredIn(bs, add)
	return out
}

func (in *Inst) restoreExitCells(ls *LoopS, i int, multi bool) {}

// mergeExitCells sets the value of every cell carried by the loop to its value after the loop.
func (in *Inst) mergeExitCells(ls *LoopS, multi bool) {
	S := in.X.S
	for _, c := range ls.Carried {
		if c.Cell == nil {
			continue
		}
		ty := c.Ty
		if strings.HasSuffix(c.Name, ".len") && c.Cell.Name+".len" == c.Name {
			continue // handled with the .off half
		}
		if strings.HasSuffix(c.Name, ".off") && c.Cell.Name+".off" == c.Name {
			ty = TRef
		}
		var cases []muxCase
		for i, ex := range ls.Exits {
			if i >= len(ls.exitCellSnap) {
				continue
			}
			v := ls.exitCellSnap[i][c.Cell]
			if v == nil {
				continue
			}
			g := S.True
			if ex.Sym != nil {
				g = S.SymTerm(ex.Sym)
			}
			cases = append(cases, muxCase{g, in.finalSubst(v, ls)})
		}
		if len(cases) > 0 {
			in.X.cellCur[c.Cell] = S.Mux(cases, ty)
		}
	}
}

package main

import (
	"sort"
	"fmt"
	"os"
	"path/filepath"
	"regexp"
	"strings"

	"golang.org/x/tools/go/ssa"
)

// strPieces evaluates a string-building term into literal pieces and placeholders.
// Placeholders are returned as "\x00<index into holes>\x00".
func strPieces(t *Term, holes *[]*Term) (string, bool) {
	if s, ok := t.StrVal(); ok {
		return s, true
	}
	hole := func(x *Term) string {
		for i, h := range *holes {
			if h == x {
				return fmt.Sprintf("\x00%d\x00", i)
			}
		}
		*holes = append(*holes, x)
		return fmt.Sprintf("\x00%d\x00", len(*holes)-1)
	}
	switch {
	case t.Op == "sconcat":
		a, ok1 := strPieces(t.Args[0], holes)
		b, ok2 := strPieces(t.Args[1], holes)
		return a + b, ok1 && ok2
	case t.Op == "call:fmt.Sprintf" && len(t.Args) >= 1:
		f, ok := t.Args[0].StrVal()
		if !ok {
			return "", false
		}
		var sb strings.Builder
		ai := 1
		for i := 0; i < len(f); i++ {
			if f[i] != '%' {
				sb.WriteByte(f[i])
				continue
			}
			i++
			if i >= len(f) {
				return "", false
			}
			switch f[i] {
			case '%':
				sb.WriteByte('%')
			case 's', 'd', 'v':
				if ai >= len(t.Args) {
					return "", false
				}
				a := t.Args[ai]
				ai++
				if s, ok := strPieces(a, holes); ok && (a.Ty == TString) && (a.K == KConst || a.Op == "sconcat" || strings.HasPrefix(a.Op, "call:")) && !strings.HasPrefix(a.Op, "call:path/filepath.Abs") {
					sb.WriteString(s)
				} else {
					sb.WriteString(hole(a))
				}
			default:
				return "", false
			}
		}
		if ai != len(t.Args) {
			return "", false
		}
		return sb.String(), true
	case t.Op == "call:path/filepath.Join" || t.Op == "call:path.Join":
		var parts []string
		for _, a := range t.Args {
			s, ok := strPieces(a, holes)
			if !ok {
				return "", false
			}
			parts = append(parts, s)
		}
		return strings.Join(parts, "/"), true
	case t.Op == "call:strconv.Itoa":
		return hole(t.Args[0]), true
	}
	if t.Ty == TString || t.Ty == TInt {
		return hole(t), true
	}
	return "", false
}

func genConfig() Config {
	return Config{Opaque: func(f *ssa.Function) (bool, bool) {
		if f.Pkg != nil && f.Pkg.Pkg.Path() == pkgGen && (f.Name() == "usage") {
			return true, false
		}
		return false, false
	}}
}

func ruleC20(c *Check, p *Prog) {
	c.Explanation = "Decides the generator structurally: R-OUT-DEP the path of the file created by a worker data-depends on the -o variable; R-NAME the path is <output>/random<token>.bin with the job token; " +
		"R-DISPATCH tokens 0..s-1 are each sent once, wg.Add(s) precedes dispatch, wg.Wait() precedes return; R-SIZE a buffer of n/8 bytes is filled from the random source inside the iteration and written whole, by one Write, to the file opened in that iteration; " +
		"R-ORDER per iteration OpenFile -> fill -> Write -> Close -> Done with Done exactly once on every non-panicking path (files are complete when Wait returns); R-MKDIR the output directory is created before the workers start and R-DIRMODE every directory-creating call grants the owner rwx; " +
		"R-DEFAULT-DOC flag names/defaults (-s 1000, -n 1000000, -o target/data) and the README's documented default. NOT decided: pairwise different contents (probabilistic; only the fresh fill per file is shown)."
	mfn := p.Func(pkgGen, "main")
	if mfn == nil {
		c.Fail("R-ANCHOR", "rdgen.main", "-", "not found")
		return
	}
	x := NewExt(p, NewStore(), genConfig())
	sum := x.Summarize(mfn, nil, nil)
	S := x.S
	where := p.Pos(mfn.Pos())
	if len(sum.Undecided) > 0 {
		c.Undecided("R-EXTRACT", "rdgen.main", where, "%s", strings.Join(sum.Undecided, "; "))
		return
	}
	// the variables behind -o, -s, -n are whatever the flag registrations bind (package-level variables or fields
	// of one): their names are immaterial
	regs := genFlagRegs(p, x, sum)
	locOut, locS, locN := regs["o"], regs["s"], regs["n"]
	if locOut == nil || locS == nil || locN == nil {
		c.Fail("R-ANCHOR", "rdgen/flags", where, "flags -o / -s / -n are not all bound to package-level variables by flag.XxxVar (found %d registrations)", len(regs))
		return
	}
	ldOut := locOut.ld(S, TString)
	ldS := locS.ld(S, TInt)
	ldN := locN.ld(S, TInt)
	gos := events(sum.Top, func(e *Event) bool { return e.Kind == "go" })
	if len(gos) != 1 || gos[0].StaticCallee == nil {
		c.Fail("R-ANCHOR", "rdgen.main/go", where, "expected one `go worker(...)` site, found %d", len(gos))
		return
	}
	goEv := gos[0]
	var jobs, wg *Term
	for _, a := range goEv.Args {
		if al := objAlloc(sum, a); al != nil {
			if strings.HasPrefix(al.Type, "chan ") {
				jobs = a
			}
			if al.Type == "sync.WaitGroup" {
				wg = a
			}
		}
	}
	if jobs == nil || wg == nil {
		c.Fail("R-ANCHOR", "rdgen.main/sync", where, "jobs channel / WaitGroup not passed to the worker")
		return
	}
	w := x.Summarize(goEv.StaticCallee, goEv.Args, nil)
	wwhere := p.Pos(goEv.StaticCallee.Pos())
	// R-DISPATCH
	var dprobs []string
	sends := events(sum.Top, func(e *Event) bool { return e.Kind == "send" })
	adds := events(sum.Top, func(e *Event) bool { return e.Kind == "call" && e.Callee == "(*sync.WaitGroup).Add" && e.Args[0] == wg })
	waits := events(sum.Top, func(e *Event) bool { return e.Kind == "call" && e.Callee == "(*sync.WaitGroup).Wait" && e.Args[0] == wg })
	if len(sends) != 1 || sends[0].Loop == nil || sends[0].Loop.Parent != nil || sends[0].Loop.Trip != S.Op("max0", TInt, ldS) ||
		sends[0].Args[0] != jobs || sends[0].Args[1] != iterTerm(S, sends[0].Loop) || !S.Equivalent(sends[0].Guard, S.Not(headExit(sends[0].Loop).Guard)) {
		dprobs = append(dprobs, "tokens are not sent by `for i := 0; i < s; i++ { jobs <- i }`")
	}
	if len(adds) != 1 || adds[0].Args[1] != ldS || adds[0].Loop != nil || len(sends) != 1 || adds[0].Seq > sends[0].Seq {
		dprobs = append(dprobs, "wg.Add(s) does not precede dispatch")
	}
	// the workers exist before the first token is sent (a queue filled first blocks as soon as s exceeds its capacity)
	if len(sends) == 1 && goEv.Seq > sends[0].Seq {
		dprobs = append(dprobs, "the workers are started after the dispatch loop: sends block once s exceeds the channel's capacity")
	}
	var retEv *Event
	for _, r := range sum.Rets {
		if !r.Dead {
			retEv = r
		}
	}
	if len(waits) != 1 || len(sends) != 1 || waits[0].Seq < sends[0].Seq || waits[0].Loop != nil || retEv == nil || !S.Implies(retEv.Guard, waits[0].Guard) {
		dprobs = append(dprobs, "wg.Wait() is not executed after dispatch on the way to main's return")
	}
	for _, e := range events(w.Top, func(e *Event) bool { return e.Kind == "send" || (e.Kind == "call" && e.Callee == "builtin:close") }) {
		dprobs = append(dprobs, "worker sends/closes: "+e.String(p))
	}
	c.Expect(len(dprobs) == 0, "R-DISPATCH", "rdgen.main", where, "tokens 0..s-1 each sent once; wg.Add(s) before dispatch; wg.Wait() before main returns", strings.Join(dprobs, "; "))

	// worker job loop
	var jl *LoopS
	var recv *Event
	w.Top.AllLoops(func(l *LoopS) {
		for _, it := range l.Body.Items {
			if e, ok := it.(*Event); ok && e.Kind == "recv" && e.Args[0] == jobs {
				jl, recv = l, e
			}
		}
	})
	if jl == nil {
		c.Fail("R-ANCHOR", "rdgen.worker/loop", wwhere, "no loop receiving tokens")
		return
	}
	tok := S.mkOp("extract0", TInt, S.SymTerm(recv.Res))
	var open, fill, write, closeEv *Event
	var dones, writes, opens []*Event
	jl.Body.Events(func(e *Event, loops []*LoopS) {
		if e.Kind != "call" || len(loops) > 0 {
			return
		}
		switch e.Callee {
		case "os.OpenFile", "os.Create":
			opens = append(opens, e)
		case "(*os.File).Write":
			writes = append(writes, e)
		case "(*sync.WaitGroup).Done":
			if e.Args[0] == wg {
				dones = append(dones, e)
			}
		}
	})
	if len(opens) == 1 {
		open = opens[0]
	}
	if len(writes) == 1 {
		write = writes[0]
	}
	if open == nil {
		c.Fail("R-OUT-DEP", "rdgen.worker", wwhere, "the worker does not create exactly one file per job (%d open sites)", len(opens))
		return
	}
	pathT := open.Args[0]
	// R-OUT-DEP
	depOut := mentions(pathT, ldOut)
	if !depOut {
		// ... or on the absolute form of it computed by the caller (filepath.Abs / Clean of `output` kept in a local)
		Walk(pathT, map[*Term]bool{}, func(u *Term) {
			if resolvedOut(u, ldOut) {
				depOut = true
			}
		})
	}
	c.Expect(depOut, "R-OUT-DEP", "rdgen.worker", wherePos(p, open),
		"the path of the created file data-depends on the -o variable `output`",
		fmt.Sprintf("the created file's path %v does not depend on `output`: -o is ignored", pathT))
	// R-NAME
	var holes []*Term
	pat, okp := strPieces(pathT, &holes)
	nameOK := false
	if okp {
		h := func(x *Term) string {
			for i, hh := range holes {
				if hh == x || (x == ldOut && resolvedOut(hh, ldOut)) {
					return fmt.Sprintf("\x00%d\x00", i)
				}
			}
			return "\x00?\x00"
		}
		want1 := h(ldOut) + "/random" + h(tok) + ".bin"
		want2 := h(ldOut) + string(os.PathSeparator) + "random" + h(tok) + ".bin"
		nameOK = pat == want1 || pat == want2
	}
	c.Expect(nameOK, "R-NAME", "rdgen.worker", wherePos(p, open), "the file is <output>/random<token>.bin",
		fmt.Sprintf("the file name pattern is %q, not <output>/random<token>.bin", strings.NewReplacer("\x00", "§").Replace(pat)))
	// open flags: create + truncate/write
	if fl, ok := intOf(argAt(open, 1)); open.Callee == "os.OpenFile" && ok {
		c.Expect(fl&int64(os.O_CREATE) != 0 && (fl&int64(os.O_WRONLY) != 0 || fl&int64(os.O_RDWR) != 0) && fl&int64(os.O_TRUNC) != 0, "R-NAME", "rdgen.worker/flags", wherePos(p, open),
			"the file is opened with O_CREATE|O_TRUNC for writing", fmt.Sprintf("open flags %#x do not create/truncate for writing", fl))
	}
	// R-SIZE
	var sprobs []string
	file := S.mkOp("extract0", TRef, S.SymTerm(open.Res))
	wantLen := S.Op("idiv", TInt, ldN, S.Int(8))
	var bufT *Term
	if write == nil {
		sprobs = append(sprobs, fmt.Sprintf("%d Write sites per iteration", len(writes)))
	} else {
		bufT = write.Args[1]
		root, off, ln, ok := isSliceOf(bufT)
		al := objAlloc(w, root)
		if !(ok && isZero(off) && al != nil && al.Len == ln && ln == wantLen) {
			sprobs = append(sprobs, fmt.Sprintf("the buffer written is not the whole make([]byte, n/8) (got %v)", bufT))
		}
		if write.Args[0] != file {
			sprobs = append(sprobs, "the write does not go to the file opened in this iteration")
		}
		// fill
		jl.Body.Events(func(e *Event, loops []*LoopS) {
			if e.Kind == "call" && len(loops) == 0 && e.Seq < write.Seq && e.Seq > recv.Seq {
				isFill := (e.Callee == "invoke:Read" && len(e.Args) == 1 && e.Args[0] == bufT) ||
					((e.Callee == "io.ReadFull" || e.Callee == "crypto/rand.Read") && e.Args[len(e.Args)-1] == bufT)
				if isFill && S.Implies(write.Guard, e.Guard) {
					fill = e
				}
			}
		})
		if fill == nil {
			sprobs = append(sprobs, "the buffer is not filled from the random source inside the iteration before it is written")
		} else {
			// source must be crypto/rand
			src := fill.Recv
			if fill.Callee == "io.ReadFull" {
				src = fill.Args[0]
			}
			if fill.Callee != "crypto/rand.Read" && !(src != nil && src.Op == "ld" && src.Args[0].K == KSym && src.Args[0].Sym.Canon == "crypto/rand.Reader") {
				sprobs = append(sprobs, fmt.Sprintf("the fill does not read crypto/rand (source %v)", src))
			}
		}
	}
	c.Expect(len(sprobs) == 0, "R-SIZE", "rdgen.worker", wherePos(p, write), "a buffer of n/8 bytes is filled from crypto/rand in the iteration and written whole by one Write to the file just opened", strings.Join(sprobs, "; "))
	// R-ORDER
	var oprobs []string
	jl.Body.Events(func(e *Event, loops []*LoopS) {
		if e.Kind == "call" && e.Callee == "(*os.File).Close" && len(e.Args) == 1 && e.Args[0] == file && write != nil && e.Seq > write.Seq && len(loops) == 0 {
			if closeEv == nil {
				closeEv = e
			}
		}
	})
	if len(dones) == 0 {
		oprobs = append(oprobs, "no wg.Done in the iteration")
	}
	any := S.False
	for i, a := range dones {
		any = S.Or(any, a.Guard)
		for _, b := range dones[i+1:] {
			if !S.Exclusive(a.Guard, b.Guard) {
				oprobs = append(oprobs, "Done may be called twice on one path")
			}
		}
		if write == nil || closeEv == nil || !(open.Seq < write.Seq && write.Seq < closeEv.Seq && closeEv.Seq < a.Seq) {
			oprobs = append(oprobs, "order OpenFile -> Write -> Close -> Done is not respected")
		} else if !S.Implies(a.Guard, closeEv.Guard) || !S.Implies(a.Guard, write.Guard) {
			oprobs = append(oprobs, "Done can run on a path where the file was not written and closed")
		}
	}
	if !S.Implies(jl.Cont, S.Canon(any)) {
		oprobs = append(oprobs, fmt.Sprintf("an iteration can continue to the next job without wg.Done (continue %v, Done %v)", jl.Cont, S.Canon(any)))
	}
	// every path of the iteration that does not call Done must end in panic (exits other than the channel-closed exit)
	c.Expect(len(oprobs) == 0, "R-ORDER", "rdgen.worker", loopWhere(p, jl), "OpenFile -> fill -> Write -> Close -> Done; Done exactly once on every path that continues to the next job", strings.Join(oprobs, "; "))
	// R-MKDIR / R-DIRMODE
	var mk []*Event
	collect := func(s *Summary) {
		s.Top.Events(func(e *Event, _ []*LoopS) {
			if e.Kind == "call" && (e.Callee == "os.MkdirAll" || e.Callee == "os.Mkdir") {
				mk = append(mk, e)
			}
		})
	}
	collect(sum)
	collect(w)
	mkOK := false
	for _, e := range mk {
		if resolvedOut(e.Args[0], ldOut) && e.Loop == nil && e.Seq < goEv.Seq && S.Implies(goEv.Loop.Guard, e.Guard) {
			mkOK = true
		}
	}
	c.Expect(mkOK, "R-MKDIR", "rdgen.main", where, "os.MkdirAll(output, perm) runs before the workers are started", "the output directory is not created from `output` before the workers start")
	for i, e := range mk {
		perm, ok := intOf(argAt(e, 1))
		c.Expect(ok && perm&0o700 == 0o700, "R-DIRMODE", fmt.Sprintf("rdgen/mkdir#%d", i), wherePos(p, e),
			fmt.Sprintf("directory mode %#o grants the owner rwx", perm),
			fmt.Sprintf("directory mode %#o lacks owner search/write permission: a non-root user cannot create files (or sub-directories) in the directory just made", perm))
	}
	checkWorkersAt(c, p, "R-DISPATCH", "rdgen.main/workers", S, goEv)
	// cross-tool agreement: the detector counts a file named random<k>.bin in the output directory as a sample
	checkDetectorAccepts(c, p)
	// the -o value is used as given: the only rewriting allowed is filepath.Abs / filepath.Clean of itself
	var rprobs []string
	nst := 0
	sum.Top.Events(func(e *Event, _ []*LoopS) {
		if e.Kind != "store" || !locOut.isTarget(e) {
			return
		}
		nst++
		v := e.Val
		okv := false
		if v != ldOut && resolvedOut(v, ldOut) {
			okv = true
		}
		if !okv {
			rprobs = append(rprobs, fmt.Sprintf("output is rewritten to %v at %s", trunc(v.String(), 160), p.Pos(e.Pos)))
		}
	})
	w.Top.Events(func(e *Event, _ []*LoopS) {
		if e.Kind == "store" && locOut.isTarget(e) {
			rprobs = append(rprobs, "a worker writes the output variable at "+p.Pos(e.Pos))
		}
	})
	c.Expect(len(rprobs) == 0, "R-OUT-DEP", "rdgen.main/resolve", where,
		fmt.Sprintf("the -o value is only normalised by filepath.Abs/Clean of itself (%d assignment(s)): relative and absolute paths both denote the requested directory", nst),
		strings.Join(rprobs, "; "))
	// R-DEFAULT-DOC
	checkGenFlags(c, p, x, sum)
	checkFlagOrder(c, p, pkgGen, "rdgen.main")
}

// resolvedOut: t is the -o value itself or filepath.Abs / filepath.Clean applied to it (the same directory).
func resolvedOut(t, ldOut *Term) bool {
	for depth := 0; depth < 4; depth++ {
		if t == ldOut {
			return true
		}
		if t.Op == "extract0" && t.Args[0].K == KSym && t.Args[0].Sym.Ev != nil {
			ce := t.Args[0].Sym.Ev
			if ce.Kind == "call" && ce.Callee == "path/filepath.Abs" && len(ce.Args) == 1 {
				t = ce.Args[0]
				continue
			}
		}
		if t.Op == "call:path/filepath.Clean" && len(t.Args) == 1 {
			t = t.Args[0]
			continue
		}
		return false
	}
	return false
}

func argAt(e *Event, i int) *Term {
	if e == nil || i >= len(e.Args) {
		return nil
	}
	return e.Args[i]
}

// flagLoc is the location a command-line flag is bound to: a package-level variable or a field path of one.
type flagLoc struct {
	name string
	root *Term
	path []*Term
	def  *Term
}

func (l *flagLoc) ld(S *Store, ty TyClass) *Term {
	return S.mkOp("ld", ty, append([]*Term{l.root}, l.path...)...)
}

func (l *flagLoc) isTarget(e *Event) bool {
	return e.Root == l.root && samePath(e.Path, l.path)
}

// genFlagRegs collects the flag.IntVar / flag.StringVar registrations of the generator: those of the source-level
// init functions, and those main executes (directly or through a helper) before flag.Parse().
func genFlagRegs(p *Prog, x *Ext, mainSum *Summary) map[string]*flagLoc {
	out := map[string]*flagLoc{}
	reg := func(e *Event) {
		if e.Kind != "call" || (e.Callee != "flag.IntVar" && e.Callee != "flag.StringVar") || len(e.Args) != 4 {
			return
		}
		n, ok := e.Args[1].StrVal()
		if !ok {
			return
		}
		a := e.Args[0]
		l := &flagLoc{name: n, def: e.Args[2]}
		switch {
		case a.K == KSym && a.Sym.Kind == SGlobal:
			l.root = a
		case a.Op == "addr" && len(a.Args) >= 2 && a.Args[0].K == KSym && a.Args[0].Sym.Kind == SGlobal:
			l.root, l.path = a.Args[0], a.Args[1:]
		default:
			return
		}
		if _, dup := out[n]; !dup {
			out[n] = l
		}
	}
	sp := p.SPkgs[pkgGen]
	var names []string
	for name := range sp.Members {
		names = append(names, name)
	}
	sort.Strings(names)
	for _, name := range names {
		fn, ok := sp.Members[name].(*ssa.Function)
		if !ok || !strings.HasPrefix(name, "init#") {
			continue
		}
		s := x.Summarize(fn, nil, nil)
		s.Top.Events(func(e *Event, _ []*LoopS) { reg(e) })
	}
	var parse *Event
	mainSum.Top.Events(func(e *Event, loops []*LoopS) {
		if e.Kind == "call" && e.Callee == "flag.Parse" && len(loops) == 0 && parse == nil {
			parse = e
		}
	})
	mainSum.Top.Events(func(e *Event, loops []*LoopS) {
		if len(loops) == 0 && parse != nil && e.Seq < parse.Seq && x.S.Implies(parse.Guard, e.Guard) {
			reg(e)
		}
	})
	return out
}

func checkGenFlags(c *Check, p *Prog, x *Ext, mainSum *Summary) {
	S := x.S
	regs := genFlagRegs(p, x, mainSum)
	want := map[string]*Term{"s": S.Int(1000), "n": S.Int(1000000), "o": S.Str("target/data")}
	var probs []string
	for _, k := range []string{"s", "n", "o"} {
		r := regs[k]
		if r == nil {
			probs = append(probs, "flag -"+k+" is not registered")
			continue
		}
		if r.def != want[k] {
			probs = append(probs, fmt.Sprintf("flag -%s has default %v (documented: %v)", k, r.def, want[k]))
		}
	}
	// README documents the default of -o
	readme, err := os.ReadFile(filepath.Join(p.Dir, "tools", "rdgen", "README.md"))
	if err != nil {
		probs = append(probs, "tools/rdgen/README.md not readable")
	} else {
		re := regexp.MustCompile(`(?s)-o string.*?"target/data"`)
		if !re.Match(readme) {
			probs = append(probs, "README does not document \"target/data\" as the default of -o")
		}
	}
	c.Expect(len(probs) == 0, "R-DEFAULT-DOC", "rdgen/flags", "tools/rdgen/main.go:20", "-s/-n/-o are bound to the generator's variables with defaults 1000 / 1000000 / \"target/data\", the documented default", strings.Join(probs, "; "))
}

// checkDetectorAccepts evaluates the batch detector's counting filter on a generated file name.
func checkDetectorAccepts(c *Check, p *Prog) {
	fn := p.Func(pkgDet, "toBeTestFileNum")
	if fn == nil {
		c.Fail("R-NAME", "rddetector-accepts", "-", "rddetector.toBeTestFileNum not found")
		return
	}
	x := NewExt(p, NewStore(), detConfig())
	sum := x.Summarize(fn, nil, nil)
	S := x.S
	var walk *Event
	sum.Top.Events(func(e *Event, _ []*LoopS) {
		if e.Kind == "call" && e.Callee == "path/filepath.Walk" {
			walk = e
		}
	})
	if walk == nil || len(walk.Args) < 2 || walk.Args[1].Op != "closure" {
		c.Undecided("R-NAME", "rddetector-accepts", p.Pos(fn.Pos()), "counting walk not recognised")
		return
	}
	clo := walk.Args[1]
	args := walkArgs(x, 0)
	x.Summarize(clo.Args[0].Sym.Obj.(*ssa.Function), args, clo.Args[1:])
	var cond *Term
	for _, f := range clo.Args[1:] {
		if isCellTerm(f) && strings.HasPrefix(f.Sym.Name, "samples") {
			if cur := x.cellCur[f.Sym]; cur != nil && cur.Op == "ite" {
				cond = cur.Args[0]
			}
		}
	}
	if cond == nil {
		c.Undecided("R-NAME", "rddetector-accepts", p.Pos(fn.Pos()), "sample-count condition not recognised")
		return
	}
	// a regular file (info != nil, !IsDir) named <dir>/random7.bin
	ok := true
	for _, name := range []string{"out/random0.bin", "/abs/dir/random17.bin"} {
		e := NewEnv(3)
		e.Over[args[0].Sym] = Val{K: TString, S: name}
		// info: non-nil and not a directory
		isDir := S.mkOp("call:invoke:IsDir", TBool, args[1])
		nilCmp := S.Cmp("==", args[1], S.Nil)
		e.memo[isDir] = Val{K: TBool, B: false}
		e.memo[nilCmp] = Val{K: TBool, B: false}
		if !e.Eval(cond).B {
			ok = false
		}
	}
	c.Expect(ok, "R-NAME", "rddetector-accepts", p.Pos(fn.Pos()), "the batch detector's sample filter accepts a regular file named random<k>.bin (generator and detector agree on the suffix)",
		fmt.Sprintf("the batch detector's sample filter %v does not accept a regular file named random<k>.bin", cond))
}

package main

// Boolean guards: canonicalisation by truth table over atoms (Shannon expansion in atom-id order),
// implication, multiplexers for if-converted phi nodes.

import (
	"sort"
)

const maxAtoms = 14

func isConnective(t *Term) bool {
	if t.Ty != TBool {
		return false
	}
	switch t.Op {
	case "land", "lor", "not":
		return true
	case "ite":
		return t.Args[1].Ty == TBool
	}
	return t.K == KConst
}

// atomRep returns the canonical representative of an atom and whether t is its negation.
func (s *Store) atomRep(t *Term) (*Term, bool) {
	n := s.Not(t)
	if n.Op == "not" { // no complementary atom form
		return t, false
	}
	if n.id < t.id {
		return n, true
	}
	return t, false
}

func (s *Store) collectAtoms(t *Term, set map[*Term]bool, seen map[*Term]bool) {
	if seen[t] {
		return
	}
	seen[t] = true
	if t.K == KConst {
		return
	}
	if isConnective(t) {
		for _, a := range t.Args {
			s.collectAtoms(a, set, seen)
		}
		return
	}
	r, _ := s.atomRep(t)
	set[r] = true
}

func (s *Store) evalBool(t *Term, asg map[*Term]bool, memo map[*Term]bool) bool {
	if v, ok := memo[t]; ok {
		return v
	}
	var r bool
	switch {
	case t.K == KConst:
		r, _ = t.BoolVal()
	case t.Op == "land":
		r = s.evalBool(t.Args[0], asg, memo) && s.evalBool(t.Args[1], asg, memo)
	case t.Op == "lor":
		r = s.evalBool(t.Args[0], asg, memo) || s.evalBool(t.Args[1], asg, memo)
	case t.Op == "not":
		r = !s.evalBool(t.Args[0], asg, memo)
	case t.Op == "ite" && t.Args[1].Ty == TBool:
		if s.evalBool(t.Args[0], asg, memo) {
			r = s.evalBool(t.Args[1], asg, memo)
		} else {
			r = s.evalBool(t.Args[2], asg, memo)
		}
	default:
		rep, neg := s.atomRep(t)
		r = asg[rep] != neg
	}
	memo[t] = r
	return r
}

func sortedAtoms(set map[*Term]bool) []*Term {
	var as []*Term
	for a := range set {
		as = append(as, a)
	}
	sort.Slice(as, func(i, j int) bool { return as[i].id < as[j].id })
	return as
}

var canonMemo = map[*Term]*Term{}

// Canon returns the canonical form of a boolean term (reduced Shannon expansion over its atoms).
func (s *Store) Canon(t *Term) *Term {
	if t.K == KConst {
		return t
	}
	if r, ok := canonMemo[t]; ok {
		return r
	}
	set := map[*Term]bool{}
	s.collectAtoms(t, set, map[*Term]bool{})
	atoms := sortedAtoms(set)
	if len(atoms) > maxAtoms {
		canonMemo[t] = t
		return t
	}
	asg := map[*Term]bool{}
	conf := s.eqConflicts(atoms)
	var build func(i int) *Term // nil: no feasible assignment below
	build = func(i int) *Term {
		if i == len(atoms) {
			return s.Bool(s.evalBool(t, asg, map[*Term]bool{}))
		}
		var hi, lo *Term
		okT, okF := conf.feasible(i, atoms, asg) // x == c1 and x == c2 cannot both hold, x < y excludes y < x, ...
		if okT {
			asg[atoms[i]] = true
			hi = build(i + 1)
		}
		if okF {
			asg[atoms[i]] = false
			lo = build(i + 1)
		}
		if hi == nil {
			return lo
		}
		if lo == nil || hi == lo {
			return hi
		}
		return s.Op("ite", TBool, atoms[i], hi, lo)
	}
	r := build(0)
	if r == nil {
		r = s.False
	}
	canonMemo[t] = r
	canonMemo[r] = r
	return r
}

// Implies reports whether p ⇒ q holds for every assignment of their atoms (atoms treated as independent).
func (s *Store) Implies(p, q *Term) bool {
	if q == s.True || p == s.False || p == q {
		return true
	}
	set := map[*Term]bool{}
	seen := map[*Term]bool{}
	s.collectAtoms(p, set, seen)
	s.collectAtoms(q, set, seen)
	atoms := sortedAtoms(set)
	if len(atoms) > maxAtoms+2 {
		return false
	}
	asg := map[*Term]bool{}
	conf := s.eqConflicts(atoms)
	var rec func(i int) bool
	rec = func(i int) bool {
		if i == len(atoms) {
			if s.evalBool(p, asg, map[*Term]bool{}) && !s.evalBool(q, asg, map[*Term]bool{}) {
				return false
			}
			return true
		}
		okT, okF := conf.feasible(i, atoms, asg)
		if okT {
			asg[atoms[i]] = true
			if !rec(i + 1) {
				return false
			}
		}
		if okF {
			asg[atoms[i]] = false
			return rec(i + 1)
		}
		return true
	}
	return rec(0)
}

// conflict: atoms[j] == pj together with the current atom == pi is impossible.
type conflict struct {
	j      int
	pj, pi bool
}

type conflicts [][]conflict

func (c conflicts) feasible(i int, atoms []*Term, asg map[*Term]bool) (okT, okF bool) {
	okT, okF = true, true
	for _, k := range c[i] {
		if asg[atoms[k.j]] == k.pj {
			if k.pi {
				okT = false
			} else {
				okF = false
			}
		}
	}
	return
}

// eqConflicts: the order facts the propositional reasoning knows, as pairwise exclusions between an atom i and an
// earlier atom j:
//   - integer atoms over the same term up to a constant: x == c1 excludes x == c2; x <= p implies x <= q for p <= q;
//     x <= p excludes x >= q for q > p and one of them holds for q <= p+1; x == c implies / excludes x <= p;
//   - float atoms over the same pair of operands (all of these hold with NaN operands too, every comparison with NaN
//     being false): a < b excludes b < a, b <= a and a == b; a < b implies a <= b; a == b implies a <= b and b <= a.
func (s *Store) eqConflicts(atoms []*Term) conflicts {
	conf := make(conflicts, len(atoms))
	add := func(i, j int, pj, pi bool) { conf[i] = append(conf[i], conflict{j, pj, pi}) }
	for i, a := range atoms {
		switch a.Op {
		case "eq0", "le0":
			for j := 0; j < i; j++ {
				b := atoms[j]
				if b.Op != "eq0" && b.Op != "le0" {
					continue
				}
				ta, tb := a.Args[0], b.Args[0]
				if ta.Ty != TInt || tb.Ty != TInt {
					continue
				}
				d, same := s.Sub(ta, tb).IntVal()  // ta = tb + d
				sm, opp := s.Add(ta, tb).IntVal() // ta = sm - tb
				switch {
				case a.Op == "eq0" && b.Op == "eq0":
					if (same && d != 0) || (opp && sm != 0) {
						add(i, j, true, true)
					}
				case a.Op == "le0" && b.Op == "le0":
					if same {
						// a: tb <= -d, b: tb <= 0
						if d >= 0 {
							add(i, j, false, true) // a implies b
						}
						if d <= 0 {
							add(i, j, true, false) // b implies a
						}
					} else if opp {
						// a: tb >= sm, b: tb <= 0
						if sm > 0 {
							add(i, j, true, true)
						}
						if sm <= 1 {
							add(i, j, false, false)
						}
					}
				default:
					// one equality e (te == 0), one inequality l (tl <= 0)
					var holds bool // the equality implies the inequality
					if a.Op == "eq0" {
						// te = ta, tl = tb
						if same { // tb = -d at the equality
							holds = -d <= 0
						} else if opp { // tb = sm
							holds = sm <= 0
						} else {
							continue
						}
						if holds {
							add(i, j, false, true) // le false, eq true impossible
						} else {
							add(i, j, true, true)
						}
					} else {
						// te = tb, tl = ta
						if same { // ta = d at the equality
							holds = d <= 0
						} else if opp { // ta = sm
							holds = sm <= 0
						} else {
							continue
						}
						if holds {
							add(i, j, true, false) // eq true, le false impossible
						} else {
							add(i, j, true, true)
						}
					}
				}
			}
		case "flt", "fle", "feq":
			for j := 0; j < i; j++ {
				b := atoms[j]
				if b.Op != "flt" && b.Op != "fle" && b.Op != "feq" {
					continue
				}
				sameDir := a.Args[0] == b.Args[0] && a.Args[1] == b.Args[1]
				revDir := a.Args[0] == b.Args[1] && a.Args[1] == b.Args[0]
				if !sameDir && !revDir {
					continue
				}
				// implies(p, q): p true and q false impossible; excl(p, q): both true impossible; in terms of (i, j)
				type rel int
				const (
					none rel = iota
					aImpB
					bImpA
					excl
				)
				r := none
				switch a.Op + "," + b.Op {
				case "flt,flt":
					if revDir {
						r = excl
					}
				case "flt,fle":
					if sameDir {
						r = aImpB
					} else {
						r = excl
					}
				case "fle,flt":
					if sameDir {
						r = bImpA
					} else {
						r = excl
					}
				case "flt,feq", "feq,flt":
					r = excl
				case "feq,fle":
					r = aImpB
				case "fle,feq":
					r = bImpA
				}
				switch r {
				case aImpB:
					add(i, j, false, true)
				case bImpA:
					add(i, j, true, false)
				case excl:
					add(i, j, true, true)
				}
			}
		}
	}
	return conf
}

func (s *Store) Exclusive(p, q *Term) bool { return s.Implies(p, s.Not(q)) }
func (s *Store) Equivalent(p, q *Term) bool {
	return s.Implies(p, q) && s.Implies(q, p)
}

type muxCase struct {
	G *Term
	V *Term
}

// Mux builds the canonical value selected by the first (only) true guard. Assignments under which no
// guard holds are unconstrained (the join is not reached) and take whatever makes the tree smallest.
func (s *Store) Mux(cases []muxCase, ty TyClass) *Term {
	if len(cases) == 0 {
		return nil
	}
	same := true
	for _, c := range cases[1:] {
		if c.V != cases[0].V {
			same = false
		}
	}
	if same {
		return cases[0].V
	}
	set := map[*Term]bool{}
	seen := map[*Term]bool{}
	for _, c := range cases {
		s.collectAtoms(c.G, set, seen)
	}
	atoms := sortedAtoms(set)
	if len(atoms) > maxAtoms {
		// fall back to a plain chain
		r := cases[len(cases)-1].V
		for i := len(cases) - 2; i >= 0; i-- {
			r = s.Op("ite", ty, cases[i].G, cases[i].V, r)
		}
		return r
	}
	asg := map[*Term]bool{}
	var build func(i int) *Term // nil = unconstrained
	build = func(i int) *Term {
		if i == len(atoms) {
			for _, c := range cases {
				if s.evalBool(c.G, asg, map[*Term]bool{}) {
					return c.V
				}
			}
			return nil
		}
		asg[atoms[i]] = true
		hi := build(i + 1)
		asg[atoms[i]] = false
		lo := build(i + 1)
		if hi == nil {
			return lo
		}
		if lo == nil {
			return hi
		}
		if hi == lo {
			return hi
		}
		return s.Op("ite", ty, atoms[i], hi, lo)
	}
	return build(0)
}

// Restrict simplifies the ite-structure of t under the assumption p.
func (s *Store) Restrict(t *Term, p *Term) *Term {
	if p == s.True || t == nil {
		return t
	}
	if t.Ty == TBool && t.K != KConst {
		if s.Implies(p, t) {
			return s.True
		}
		if s.Implies(p, s.Not(t)) {
			return s.False
		}
	}
	for t.Op == "ite" {
		c := t.Args[0]
		if s.Implies(p, c) {
			t = t.Args[1]
		} else if s.Implies(p, s.Not(c)) {
			t = t.Args[2]
		} else {
			break
		}
	}
	if t.Op == "ite" {
		a := s.Restrict(t.Args[1], s.And(p, t.Args[0]))
		b := s.Restrict(t.Args[2], s.And(p, s.Not(t.Args[0])))
		if a != t.Args[1] || b != t.Args[2] {
			return s.Op("ite", t.Ty, t.Args[0], a, b)
		}
	}
	return t
}

// RestrictDeep resolves, anywhere inside t, the selections (ite) whose condition is decided by the assumption p or by
// the conditions of the selections they are nested in (path-sensitive: inside the else-arm of ite(c, ..) c is false).
func (s *Store) RestrictDeep(t *Term, p *Term) *Term {
	if t == nil || p == nil {
		return t
	}
	hasIte := false
	Walk(t, map[*Term]bool{}, func(x *Term) {
		if x.Op == "ite" {
			hasIte = true
		}
	})
	if !hasIte {
		return t
	}
	type key struct{ t, p *Term }
	memo := map[key]*Term{}
	decided := map[key]int{} // (condition, assumption) -> 1 true, 2 false, 3 open
	budget := 4000
	var rec func(t, p *Term) *Term
	rec = func(t, p *Term) *Term {
		if t.K != KOp {
			return t
		}
		k := key{t, p}
		if r, ok := memo[k]; ok {
			return r
		}
		var r *Term
		if t.Op == "ite" {
			c := t.Args[0]
			dk := key{c, p}
			d := decided[dk]
			if d == 0 {
				d = 3
				if p != s.True && budget > 0 {
					budget--
					switch {
					case s.Implies(p, c):
						d = 1
					case s.Implies(p, s.Not(c)):
						d = 2
					}
				}
				decided[dk] = d
			}
			switch d {
			case 1:
				r = rec(t.Args[1], p)
			case 2:
				r = rec(t.Args[2], p)
			default:
				pc, pn := p, p
				if budget > 0 {
					pc, pn = s.Canon(s.And(p, c)), s.Canon(s.And(p, s.Not(c)))
				}
				na := []*Term{rec(c, p), rec(t.Args[1], pc), rec(t.Args[2], pn)}
				if na[0] == t.Args[0] && na[1] == t.Args[1] && na[2] == t.Args[2] {
					r = t
				} else {
					r = s.Op("ite", t.Ty, na...)
				}
			}
		} else {
			changed := false
			na := make([]*Term, len(t.Args))
			for i, a := range t.Args {
				na[i] = rec(a, p)
				if na[i] != a {
					changed = true
				}
			}
			if !changed {
				r = t
			} else if t.Op == "lin" {
				acc := s.linMake(nil, nil, t.Off)
				for i, a := range na {
					acc = s.Add(acc, s.MulC(a, t.Coefs[i]))
				}
				r = acc
			} else {
				r = s.rebuild(t, na)
			}
		}
		memo[k] = r
		return r
	}
	return rec(t, p)
}

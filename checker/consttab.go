package main

// Read-only package-level tables: a package-level array/slice variable whose initialiser is a literal of constants
// and which no function other than the package initialiser writes, slices, or takes the address of, is a constant
// table. Equivalence checks evaluate loads from such a table to the actual element, so a table may be named,
// placed (package level or local) or spelled differently on the two sides.

import (
	"go/ast"
	"go/constant"

	"golang.org/x/tools/go/ssa"
)

func readOnlyGlobal(p *Prog, g *ssa.Global) bool {
	pkg := g.Pkg
	if pkg == nil {
		return false
	}
	ok := true
	var scan func(fn *ssa.Function)
	seen := map[*ssa.Function]bool{}
	onlyLoads := func(v ssa.Value) bool {
		refs := v.Referrers()
		if refs == nil {
			return false
		}
		for _, r := range *refs {
			switch r := r.(type) {
			case *ssa.UnOp:
			case *ssa.DebugRef:
			default:
				_ = r
				return false
			}
		}
		return true
	}
	scan = func(fn *ssa.Function) {
		if fn == nil || seen[fn] {
			return
		}
		seen[fn] = true
		isInit := fn.Name() == "init" && fn.Synthetic != ""
		for _, b := range fn.Blocks {
			for _, instr := range b.Instrs {
				for _, op := range instr.Operands(nil) {
					if *op != ssa.Value(g) {
						continue
					}
					switch t := instr.(type) {
					case *ssa.IndexAddr:
						if isInit {
							continue
						}
						if !onlyLoads(t) {
							ok = false
						}
					case *ssa.UnOp:
						// whole-value load (range over an array copies it)
					case *ssa.Store:
						if !isInit || t.Addr != ssa.Value(g) {
							ok = false
						}
					case *ssa.DebugRef:
					default:
						ok = false
					}
				}
			}
		}
		for _, an := range fn.AnonFuncs {
			scan(an)
		}
	}
	for _, m := range pkg.Members {
		switch m := m.(type) {
		case *ssa.Function:
			scan(m)
		case *ssa.Type:
			for _, T := range []interface{ String() string }{} {
				_ = T
			}
			ms := p.SSA.MethodSets.MethodSet(m.Type())
			for i := 0; i < ms.Len(); i++ {
				scan(p.SSA.MethodValue(ms.At(i)))
			}
		}
	}
	return ok
}

// constTableOf returns the elements of a read-only literal table of numbers, or nil.
func constTableOf(p *Prog, g *ssa.Global) []Val {
	if g.Pkg == nil || g.Pkg.Pkg == nil {
		return nil
	}
	lit := p.GlobalLit(g.Pkg.Pkg.Path(), g.Name())
	if lit == nil || lit.Const != nil || len(lit.Elems) == 0 {
		return nil
	}
	if cl, ok := lit.Expr.(*ast.CompositeLit); ok {
		for _, el := range cl.Elts {
			if _, keyed := el.(*ast.KeyValueExpr); keyed {
				return nil
			}
		}
	} else {
		return nil
	}
	var out []Val
	for _, el := range lit.Elems {
		if el.Const == nil {
			return nil
		}
		switch el.Const.Kind() {
		case constant.Int:
			v, _ := constant.Int64Val(el.Const)
			out = append(out, Val{K: TInt, I: v, F: float64(v)})
		case constant.Float:
			f, _ := constant.Float64Val(el.Const)
			out = append(out, Val{K: TFloat, F: f})
		default:
			return nil
		}
	}
	if !readOnlyGlobal(p, g) {
		return nil
	}
	return out
}

// collectConstTables registers, for every package-level symbol a summary mentions, its constant table (if it is one).
func collectConstTables(p *Prog, sum *Summary, into map[*Symbol][]Val) {
	seen := map[*Term]bool{}
	visit := func(t *Term) *Term {
		if t != nil {
			Walk(t, seen, func(x *Term) {
				if x.K == KSym && x.Sym.Kind == SGlobal {
					if _, done := into[x.Sym]; done {
						return
					}
					into[x.Sym] = nil
					if g, ok := x.Sym.Obj.(*ssa.Global); ok {
						into[x.Sym] = constTableOf(p, g)
					}
				}
			})
		}
		return t
	}
	sum.Top.MapTerms(visit)
}

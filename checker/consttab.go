package main

// Read-only package-level tables: a package-level array/slice variable whose initialiser is a literal of constants
// and which no function other than the package initialiser writes, slices, or takes the address of, is a constant
// table. Equivalence checks evaluate loads from such a table to the actual element, so a table may be named,
// placed (package level or local) or spelled differently on the two sides.

import (
	"go/ast"
	"go/constant"

	"golang.org/x/tools/go/ssa"
)

// recTables holds the rows of tables of records (indexed by Val.R of the row's placeholder value).
var recTables []map[string]Val

func readOnlyGlobal(p *Prog, g *ssa.Global) bool {
	pkg := g.Pkg
	if pkg == nil {
		return false
	}
	ok := true
	var scan func(fn *ssa.Function)
	seen := map[*ssa.Function]bool{}
	onlyLoads := func(v ssa.Value) bool {
		refs := v.Referrers()
		if refs == nil {
			return false
		}
		for _, r := range *refs {
			switch r := r.(type) {
			case *ssa.UnOp:
			case *ssa.DebugRef:
			default:
				_ = r
				return false
			}
		}
		return true
	}
	scan = func(fn *ssa.Function) {
		if fn == nil || seen[fn] {
			return
		}
		seen[fn] = true
		isInit := fn.Name() == "init" && fn.Synthetic != ""
		for _, b := range fn.Blocks {
			for _, instr := range b.Instrs {
				for _, op := range instr.Operands(nil) {
					if *op != ssa.Value(g) {
						continue
					}
					switch t := instr.(type) {
					case *ssa.IndexAddr:
						if isInit {
							continue
						}
						if !onlyLoads(t) {
							ok = false
						}
					case *ssa.UnOp:
						// whole-value load (range over an array copies it)
					case *ssa.Store:
						if !isInit || t.Addr != ssa.Value(g) {
							ok = false
						}
					case *ssa.DebugRef:
					default:
						ok = false
					}
				}
			}
		}
		for _, an := range fn.AnonFuncs {
			scan(an)
		}
	}
	for _, m := range pkg.Members {
		switch m := m.(type) {
		case *ssa.Function:
			scan(m)
		case *ssa.Type:
			for _, T := range []interface{ String() string }{} {
				_ = T
			}
			ms := p.SSA.MethodSets.MethodSet(m.Type())
			for i := 0; i < ms.Len(); i++ {
				scan(p.SSA.MethodValue(ms.At(i)))
			}
		}
	}
	return ok
}

// constTableOf returns the elements of a read-only literal table of numbers, or nil.
func constTableOf(p *Prog, g *ssa.Global) []Val {
	if g.Pkg == nil || g.Pkg.Pkg == nil {
		return nil
	}
	lit := p.GlobalLit(g.Pkg.Pkg.Path(), g.Name())
	if lit == nil || lit.Const != nil || len(lit.Elems) == 0 {
		return nil
	}
	if cl, ok := lit.Expr.(*ast.CompositeLit); ok {
		for _, el := range cl.Elts {
			if _, keyed := el.(*ast.KeyValueExpr); keyed {
				return nil
			}
		}
	} else {
		return nil
	}
	var out []Val
	for _, el := range lit.Elems {
		if el.Const == nil && el.Fields != nil {
			// a row of a table of records: numeric fields by name
			rec := map[string]Val{}
			for fname, fl := range el.Fields {
				if fl.Const == nil {
					// a slice / array valued field (the class probabilities of a regime): only its length is kept
					if fl.Elems != nil && fl.Fields == nil {
						rec["."+fname+"#len"] = Val{K: TInt, I: int64(len(fl.Elems)), F: float64(len(fl.Elems))}
						continue
					}
					return nil
				}
				switch fl.Const.Kind() {
				case constant.Int:
					v, _ := constant.Int64Val(fl.Const)
					rec["."+fname] = Val{K: TInt, I: v, F: float64(v)}
				case constant.Float:
					f, _ := constant.Float64Val(fl.Const)
					rec["."+fname] = Val{K: TFloat, F: f}
				default:
					return nil
				}
			}
			out = append(out, Val{K: TTuple, S: "rec", T: nil, R: uint64(len(recTables))})
			recTables = append(recTables, rec)
			continue
		}
		if el.Const == nil {
			return nil
		}
		switch el.Const.Kind() {
		case constant.Int:
			v, _ := constant.Int64Val(el.Const)
			out = append(out, Val{K: TInt, I: v, F: float64(v)})
		case constant.Float:
			f, _ := constant.Float64Val(el.Const)
			out = append(out, Val{K: TFloat, F: f})
		default:
			return nil
		}
	}
	if !readOnlyGlobal(p, g) {
		return nil
	}
	return out
}

// collectConstTables registers, for every package-level symbol a summary mentions, its constant table (if it is one).
func collectConstTables(p *Prog, sum *Summary, into map[*Symbol][]Val) {
	seen := map[*Term]bool{}
	visit := func(t *Term) *Term {
		if t != nil {
			Walk(t, seen, func(x *Term) {
				if x.K == KSym && x.Sym.Kind == SGlobal {
					if _, done := into[x.Sym]; done {
						return
					}
					into[x.Sym] = nil
					if g, ok := x.Sym.Obj.(*ssa.Global); ok {
						into[x.Sym] = constTableOf(p, g)
					}
				}
			})
		}
		return t
	}
	sum.Top.MapTerms(visit)
}

// collectConstTablesInto replaces loads with a constant index from read-only literal tables of numbers (package level)
// by the element, throughout a summary. Loads with a symbolic index are left alone.
func collectConstTablesInto(p *Prog, S *Store, sum *Summary) {
	tabs := map[*Symbol][]Val{}
	collectConstTables(p, sum, tabs)
	memo := map[*Term]*Term{}
	var rw func(t *Term) *Term
	rw = func(t *Term) *Term {
		if t == nil || t.K != KOp {
			return t
		}
		if r, ok := memo[t]; ok {
			return r
		}
		na := make([]*Term, len(t.Args))
		ch := false
		for i, a := range t.Args {
			na[i] = rw(a)
			if na[i] != a {
				ch = true
			}
		}
		r := t
		if ch {
			if t.Op == "lin" {
				acc := S.linMake(nil, nil, t.Off)
				for i, a := range na {
					acc = S.Add(acc, S.MulC(a, t.Coefs[i]))
				}
				r = acc
			} else {
				r = S.rebuild(t, na)
			}
		}
		if r.Op == "ld" && len(r.Args) >= 2 && r.Args[0].K == KSym && tabs[r.Args[0].Sym] != nil && r.Args[1].Op == "ite" {
			// a selected row: select among the rows' elements
			ix := r.Args[1]
			mk := func(i *Term) *Term {
				na := append([]*Term{}, r.Args...)
				na[1] = i
				return rw(S.mkOp("ld", r.Ty, na...))
			}
			r = S.Op("ite", r.Ty, ix.Args[0], mk(ix.Args[1]), mk(ix.Args[2]))
		}
		if r.Op == "ld" && len(r.Args) >= 2 && r.Args[0].K == KSym {
			if tab := tabs[r.Args[0].Sym]; tab != nil {
				if i, ok := r.Args[1].IntVal(); ok && i >= 0 && i < int64(len(tab)) {
					el := tab[i]
					if len(r.Args) == 3 && el.K == TTuple && el.S == "rec" {
						if f, isStr := r.Args[2].StrVal(); isStr {
							if v, has := recTables[el.R][f]; has {
								el = v
							}
						}
					}
					if len(r.Args) == 2 || el.K != TTuple {
						switch el.K {
						case TInt:
							r = S.Int(el.I)
						case TFloat:
							r = S.Float(el.F)
						}
					}
				}
			}
		}
		memo[t] = r
		return r
	}
	sum.Top.MapTerms(rw)
	for _, rt := range sum.Rets {
		for i := range rt.Rets {
			rt.Rets[i] = rw(rt.Rets[i])
		}
		if rt.Guard != nil {
			rt.Guard = rw(rt.Guard)
		}
	}
}

package main

import (
	"fmt"
	"go/types"
	"sort"
	"strings"

	"golang.org/x/tools/go/ssa"
)

// libRoots lists the library entry points whose purity C18 decides.
func libRoots(p *Prog) []*ssa.Function {
	var out []*ssa.Function
	skip := func(n string) bool {
		return strings.HasPrefix(n, "GroupBit") || strings.HasPrefix(n, "GroupSecBit") || strings.HasPrefix(n, "ReadGroup")
	}
	for _, pkg := range []string{pkgRoot, pkgFFT, pkgDetect} {
		sp := p.SPkgs[pkg]
		if sp == nil {
			continue
		}
		for name, m := range sp.Members {
			switch m := m.(type) {
			case *ssa.Function:
				if m.Object() == nil || !m.Object().Exported() {
					continue
				}
				if m.Blocks == nil || skip(name) {
					continue
				}
				if pkg == pkgDetect && name != "Round12" && name != "Round15" && name != "Threshold" && name != "ThresholdQ" {
					continue
				}
				out = append(out, m)
			case *ssa.Type:
				for _, T := range []types.Type{m.Type(), types.NewPointer(m.Type())} {
					ms := p.SSA.MethodSets.MethodSet(T)
					for i := 0; i < ms.Len(); i++ {
						f := p.SSA.MethodValue(ms.At(i))
						if f != nil && f.Synthetic == "" && f.Object().Exported() && pkg == pkgFFT {
							out = append(out, f)
						}
					}
				}
			}
		}
	}
	seen := map[*ssa.Function]bool{}
	var u []*ssa.Function
	for _, f := range out {
		if !seen[f] {
			seen[f] = true
			u = append(u, f)
		}
	}
	sort.Slice(u, func(i, j int) bool { return u[i].String() < u[j].String() })
	return u
}

var nondetPkgs = []string{"crypto/rand.", "math/rand.", "time.", "os.", "runtime.", "io/ioutil.", "io.", "bufio.", "sync.", "(*sync.", "sync/atomic.", "net.", "syscall."}

// declaredInPlace: parameters that an entry point is documented to overwrite.
var declaredInPlace = map[string]map[int]bool{
	"(" + pkgFFT + ".FFT).Transform": {1: true},
	"(" + pkgFFT + ".FFT).Inverse":   {1: true},
}

func ruleC18(c *Check, p *Prog) {
	c.Explanation = "Effect analysis over every exported test entry point of package randomness, Igamc, B2bit*, the fft package, Round12/Round15 and Threshold/ThresholdQ, each summarised with all static in-module callees inlined: " +
		"R-INPUT-RO no store, copy-destination or append-base reaches memory rooted in a parameter (FFT.Transform/Inverse are documented in-place on x only, and the library's only caller passes a fresh buffer); " +
		"R-NO-GLOBAL-WRITE no function of the library packages stores to memory rooted in a package-level variable; R-FRESH-NO-ESCAPE reference results are fresh allocations of the call; " +
		"R-DETERMINISTIC no call into crypto/rand, math/rand, time, os, runtime, io, sync, no go/select/channel operation/map iteration. " +
		"From these: the only locations written are fresh per call and do not escape, shared locations (inputs, tables) are only read => repeated calls are bit-identical and concurrent calls race-free. " +
		"Dynamic calls through the registry are covered by analysing every registry runner as a root (C15 pins the registry). Assumes math.* are pure."
	roots := libRoots(p)
	c.Floor("R-INPUT-RO", 60)
	c.Extra["roots"] = len(roots)
	for _, fn := range roots {
		name := shortFn(fn)
		x := NewExt(p, NewStore(), Config{MaxDepth: 8})
		sum := x.Summarize(fn, nil, nil)
		where := p.Pos(fn.Pos())
		if len(sum.Undecided) > 0 {
			c.Undecided("R-EXTRACT", name, where, "%s", trunc(strings.Join(sum.Undecided, "; "), 300))
			continue
		}
		paramIdx := map[*Term]int{}
		for i, pt := range sum.Params {
			paramIdx[pt] = i
		}
		fresh := map[*Term]bool{}
		sum.Top.Events(func(e *Event, _ []*LoopS) {
			if e.Kind == "alloc" {
				fresh[x.S.SymTerm(e.Res)] = true
			}
		})
		allowed := declaredInPlace[canonFunc(fn)]
		var ro, glob, nondet, esc []string
		nEv := 0
		paramRoots := func(t *Term) []int {
			var out []int
			rs := map[*Term]bool{}
			rootsIn(t, rs)
			for r := range rs {
				if i, ok := paramIdx[r]; ok {
					out = append(out, i)
				}
				if r.K == KSym && r.Sym.Kind == SFree {
					out = append(out, -1)
				}
			}
			return out
		}
		var globalRoot func(t *Term) bool
		globalRoot = func(t *Term) bool {
			switch {
			case t == nil:
				return false
			case t.K == KSym:
				return t.Sym.Kind == SGlobal
			case t.Op == "slice" || t.Op == "addr" || t.Op == "at" || t.Op == "ld":
				return globalRoot(t.Args[0])
			case t.Op == "ite":
				return globalRoot(t.Args[1]) || globalRoot(t.Args[2])
			}
			return false
		}
		writeTo := func(t *Term, what string, e *Event) {
			for _, i := range paramRoots(t) {
				if !allowed[i] {
					ro = append(ro, fmt.Sprintf("%s into memory of parameter #%d at %s", what, i, p.Pos(e.Pos)))
				}
			}
			if globalRoot(t) {
				glob = append(glob, fmt.Sprintf("%s into package-level memory at %s", what, p.Pos(e.Pos)))
			}
		}
		sum.Top.Events(func(e *Event, _ []*LoopS) {
			nEv++
			switch e.Kind {
			case "store":
				writeTo(e.Root, "store", e)
				// fresh memory must not be planted into non-fresh memory
				if !fresh[e.Root] {
					for f := range fresh {
						if mentions(e.Val, f) {
							esc = append(esc, "fresh scratch stored into non-fresh memory at "+p.Pos(e.Pos))
						}
					}
				}
			case "call":
				switch e.Callee {
				case "builtin:copy", "builtin:append":
					writeTo(e.Args[0], e.Callee[8:]+" destination", e)
					return
				case "builtin:len", "builtin:cap", "builtin:print", "builtin:println":
					return
				case "dynamic":
					// registry dispatch (Round12/15): arguments may only be forwarded
					return
				}
				for _, bad := range nondetPkgs {
					if strings.HasPrefix(e.Callee, bad) {
						nondet = append(nondet, fmt.Sprintf("call of %s at %s", e.Callee, p.Pos(e.Pos)))
						return
					}
				}
				if e.StaticCallee != nil && inModule(e.StaticCallee) {
					// recursion left as a call: only scalars may be passed
					for _, a := range e.Args {
						if a.Ty == TRef || a.Ty == TOther {
							ro = append(ro, fmt.Sprintf("reference passed to the non-inlined callee %s at %s", e.Callee, p.Pos(e.Pos)))
						}
					}
					return
				}
				if strings.HasPrefix(e.Callee, "fmt.") {
					// printing is an observable side effect but not a write to shared memory; generators/loaders are excluded from the roots
					nondet = append(nondet, fmt.Sprintf("I/O call %s at %s", e.Callee, p.Pos(e.Pos)))
					return
				}
				// unknown external callee receiving references
				for _, a := range e.Args {
					if len(paramRoots(a)) > 0 || globalRoot(a) {
						ro = append(ro, fmt.Sprintf("input or table passed to unknown callee %s at %s", e.Callee, p.Pos(e.Pos)))
					}
				}
				if e.Callee[0] != '(' && !strings.HasPrefix(e.Callee, "builtin:") && !strings.HasPrefix(e.Callee, "invoke:") {
					nondet = append(nondet, fmt.Sprintf("call of %s at %s", e.Callee, p.Pos(e.Pos)))
				}
			case "go", "send", "recv", "select", "range", "next", "mapupdate", "defer":
				nondet = append(nondet, fmt.Sprintf("%s at %s", e.Kind, p.Pos(e.Pos)))
			}
		})
		// results
		for _, r := range sum.Rets {
			if r.Dead {
				continue
			}
			for _, v := range r.Rets {
				if v.Ty != TRef && v.Ty != TOther {
					continue
				}
				for _, i := range paramRoots(v) {
					if !allowed[i] {
						esc = append(esc, fmt.Sprintf("result aliases parameter #%d", i))
					}
				}
			}
		}
		c.Expect(len(ro) == 0, "R-INPUT-RO", name, where, fmt.Sprintf("no write reaches the caller's data among %d events (all writes go to allocations of this call)", nEv), strings.Join(uniq(ro), "; "))
		if len(glob) > 0 {
			c.Fail("R-NO-GLOBAL-WRITE", name, where, "%s", strings.Join(uniq(glob), "; "))
		}
		if len(nondet) > 0 {
			c.Fail("R-DETERMINISTIC", name, where, "%s", strings.Join(uniq(nondet), "; "))
		}
		if len(esc) > 0 {
			c.Fail("R-FRESH-NO-ESCAPE", name, where, "%s", strings.Join(uniq(esc), "; "))
		}
	}
	// package-wide: no store into package-level memory anywhere in the library packages (any function, exported or not)
	nf, gl := globalWrites(p, []string{pkgRoot, pkgFFT, pkgDetect})
	c.Expect(len(gl) == 0, "R-NO-GLOBAL-WRITE", "library", "structs.go:30", fmt.Sprintf("none of the %d functions of randomness, fft and detect stores into memory rooted in a package-level variable (registry and parameter tables are read-only)", nf), strings.Join(gl, "; "))
	c.Ok("R-DETERMINISTIC", "library-roots", "structs.go:30", "none of the %d roots reaches crypto/rand, math/rand, time, os, runtime, io, sync, a goroutine, a channel or a map iteration", len(roots))
	c.Extra["positive_control"] = globalWritePositiveControl()
}

func uniq(ss []string) []string {
	seen := map[string]bool{}
	var out []string
	for _, s := range ss {
		if !seen[s] {
			seen[s] = true
			out = append(out, s)
		}
	}
	return out
}

// storesToGlobals scans SSA stores whose address derives from a package-level variable.
func storesToGlobalsIn(fns []*ssa.Function, pos func(*ssa.Function, ssa.Instruction) string) []string {
	var out []string
	var root func(v ssa.Value, depth int) *ssa.Global
	root = func(v ssa.Value, depth int) *ssa.Global {
		if depth > 12 {
			return nil
		}
		switch t := v.(type) {
		case *ssa.Global:
			return t
		case *ssa.IndexAddr:
			return root(t.X, depth+1)
		case *ssa.FieldAddr:
			return root(t.X, depth+1)
		case *ssa.Slice:
			return root(t.X, depth+1)
		case *ssa.UnOp:
			return root(t.X, depth+1)
		case *ssa.ChangeType:
			return root(t.X, depth+1)
		case *ssa.Phi:
			for _, e := range t.Edges {
				if g := root(e, depth+1); g != nil {
					return g
				}
			}
		}
		return nil
	}
	for _, fn := range fns {
		if fn.Synthetic != "" || fn.Name() == "init" || strings.HasPrefix(fn.Name(), "init#") {
			continue
		}
		for _, b := range fn.Blocks {
			for _, in := range b.Instrs {
				switch t := in.(type) {
				case *ssa.Store:
					if g := root(t.Addr, 0); g != nil {
						out = append(out, fmt.Sprintf("%s writes %s at %s", fn.Name(), g.Name(), pos(fn, in)))
					}
				case *ssa.MapUpdate:
					if g := root(t.Map, 0); g != nil {
						out = append(out, fmt.Sprintf("%s updates map %s at %s", fn.Name(), g.Name(), pos(fn, in)))
					}
				case ssa.CallInstruction:
					cc := t.Common()
					if b, ok := cc.Value.(*ssa.Builtin); ok && (b.Name() == "copy" || b.Name() == "append") && len(cc.Args) > 0 {
						if g := root(cc.Args[0], 0); g != nil {
							out = append(out, fmt.Sprintf("%s %ss into %s at %s", fn.Name(), b.Name(), g.Name(), pos(fn, in)))
						}
					}
				}
			}
		}
	}
	return out
}

// checkStateless: the library keeps nothing between calls (no store into package-level memory in randomness, fft, detect).
// Necessary wherever a property compares two calls: the parallel workflows call the tests concurrently (a cache or shared
// scratch is a race, or makes the verdict depend on what ran before), entry points must agree call after call, a workflow's
// verdict must depend on its own samples only.
func checkStateless(c *Check, p *Prog) {
	nf, gl := globalWrites(p, []string{pkgRoot, pkgFFT, pkgDetect})
	c.Expect(len(gl) == 0, "R-STATELESS", "library", "structs.go:30", fmt.Sprintf("none of the %d functions of randomness, fft and detect stores into memory rooted in a package-level variable: no cache, memo or shared scratch links one call to another", nf), strings.Join(gl, "; "))
}

func globalWrites(p *Prog, pkgs []string) (int, []string) {
	var fns []*ssa.Function
	for _, fn := range p.AllSrcFuncs() {
		f := fn
		for f.Parent() != nil {
			f = f.Parent()
		}
		if f.Pkg == nil {
			continue
		}
		for _, pk := range pkgs {
			if f.Pkg.Pkg.Path() == pk {
				fns = append(fns, fn)
			}
		}
	}
	return len(fns), storesToGlobalsIn(fns, func(_ *ssa.Function, in ssa.Instruction) string { return p.Pos(in.Pos()) })
}

func globalWritePositiveControl() string {
	fns, err := buildSnippet(`package posctl
var table = []int{1, 2, 3}
var cache = map[int]int{}
func f(i int) { table[i] = 0 }
func g(i int) { cache[i] = i }
`)
	if err != nil {
		panic("positive control does not build: " + err.Error())
	}
	got := storesToGlobalsIn(fns, func(*ssa.Function, ssa.Instruction) string { return "posctl.go" })
	if len(got) != 2 {
		panic(fmt.Sprintf("positive control for the global-write rule matched %d sites, expected 2", len(got)))
	}
	return "global-write rule matched its positive control (2 sites in a synthetic package)"
}

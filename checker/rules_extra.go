package main

import (
	"fmt"
	"math"
	"math/big"
	"os"
	"strings"

	"golang.org/x/tools/go/ssa"
)

// ---- decision tables ----

// checkDecisionTable evaluates the loop-free integer decision function pkg.fn at every critical point of its
// extracted term (plus the given points) and compares with ref.
func checkDecisionTable(c *Check, p *Prog, rule, key, pkg, fn string, ref func(int64) int64, pts []int64, what string) {
	f := p.Func(pkg, fn)
	if f == nil {
		c.Fail(rule, key, "-", "%s.%s not found", pkg, fn)
		return
	}
	x := NewExt(p, NewStore(), Config{})
	sum := x.Summarize(f, nil, nil)
	where := p.Pos(f.Pos())
	// a table-driven formulation (first matching row of a small constant table) is unrolled into its rows
	dropDeadObjects(x.S, sum)
	unrollSmallLoops(x.S, sum)
	collectConstTablesInto(p, x.S, sum)
	nLoops := 0
	sum.Top.AllLoops(func(*LoopS) { nLoops++ })
	if nLoops > 0 || len(sum.Undecided) > 0 || len(sum.Params) != 1 || sum.Params[0].K != KSym {
		c.Undecided(rule, key, where, "%s is not a loop-free function of one integer", fn)
		return
	}
	t := retMux(x.S, sum)
	if t == nil {
		c.Undecided(rule, key, where, "%s has no single-valued result", fn)
		return
	}
	crit, nonlin := criticalInts(t, sum.Params[0])
	if len(nonlin) > 0 {
		c.Undecided(rule, key, where, "decision depends on the input through a non-linear comparison: %s", strings.Join(nonlin, "; "))
		return
	}
	// the result must depend on the input only through those comparisons
	dep := false
	var leafCheck func(u *Term)
	leafCheck = func(u *Term) {
		if u.Op == "ite" {
			leafCheck(u.Args[1])
			leafCheck(u.Args[2])
			return
		}
		if mentions(u, sum.Params[0]) {
			dep = true
		}
	}
	leafCheck(t)
	if dep {
		c.Undecided(rule, key, where, "a result of %s depends on the input other than through comparisons", fn)
		return
	}
	all := append(append([]int64{}, crit...), pts...)
	var bad []string
	n := 0
	for _, v := range all {
		if v < 0 {
			continue
		}
		n++
		got := evalAt(t, sum.Params[0].Sym, v, nil).I
		if want := ref(v); got != want && len(bad) < 5 {
			bad = append(bad, fmt.Sprintf("%s(%d) = %d, required %d", fn, v, got, want))
		}
	}
	c.Expect(len(bad) == 0, rule, key, where, fmt.Sprintf("%s — evaluated at %d points including both sides of every comparison boundary of the extracted decision term", what, n), strings.Join(bad, "; "))
}

func refSelectM(n int64) int64 {
	switch {
	case n >= 100000000:
		return 1000000
	case n >= 1000000:
		return 10000
	case n >= 10000:
		return 1000
	case n >= 1000:
		return 100
	}
	return 10
}

func refSelectParameters(n int64) int64 {
	switch {
	case n < 6272:
		return 0
	case n < 750000:
		return 1
	}
	return 2
}

var decisionPts = []int64{0, 1, 99, 100, 999, 1000, 1001, 9999, 10000, 999999, 1000000, 99999999, 100000000, 6271, 6272, 749999, 750000, 1 << 31}

// ---- preconditions: input-validation panics must not fire on admissible lengths ----

type precondSpec struct {
	Fn     string
	MinLen int64            // admissible minimum of len(param0)
	Params map[int][]int64  // documented parameter values to try
}

var precondSpecs = map[string][]precondSpec{
	"C01": {
		{"MonoBitFrequencyTest", 100, nil}, {"MonoBitFrequencyTestBytes", 13, nil},
		{"FrequencyWithinBlockProto", 100, map[int][]int64{1: {2, 10, 100}}},
		{"PokerProto", 100, map[int][]int64{1: {2, 4, 8}}}, {"PokerTestBytes", 13, map[int][]int64{1: {2, 4, 8}}},
		{"OverlappingTemplateMatchingProto", 100, map[int][]int64{1: {2, 3, 5, 7}}},
		{"ApproximateEntropyProto", 100, map[int][]int64{1: {2, 5, 7}}},
	},
	"C02": {{"RunsTest", 100, nil}, {"RunsDistributionTest", 100, nil}, {"LongestRunOfOnesInABlockProto", 128, nil}},
	"C03": {
		{"BinaryDerivativeProto", 100, map[int][]int64{1: {3, 7, 15}}},
		{"AutocorrelationProto", 100, map[int][]int64{1: {1, 2, 8, 16, 32}}},
		{"CumulativeTest", 100, nil},
	},
	"C04": {
		{"MatrixRankProto", 1024, map[int][]int64{1: {32}, 2: {32}}},
		{"LinearComplexityProto", 500, map[int][]int64{1: {500}}},
		{"MaurerUniversalTest", 8967, nil},
	},
	"C05": {{"DiscreteFourierTransformTest", 100, nil}},
}

func checkPreconds(c *Check, p *Prog, prop string) {
	for _, ps := range precondSpecs[prop] {
		fn := p.Func(pkgRoot, ps.Fn)
		if fn == nil {
			c.Fail("R-PRECOND", ps.Fn, "-", "function not found")
			continue
		}
		x := NewExt(p, NewStore(), Config{Opaque: opaqueExcept(repoOpaque, canonFunc(fn))})
		sum := x.Summarize(fn, nil, nil)
		where := p.Pos(fn.Pos())
		var panics []*Event
		sum.Top.Events(func(e *Event, loops []*LoopS) {
			if e.Kind == "panic" && len(loops) == 0 {
				// explicit input validation only (not the error branch of a library call)
				if _, isStr := e.Args[0].StrVal(); isStr {
					panics = append(panics, e)
				}
			}
		})
		var bad []string
		n := 0
		lens := []int64{ps.MinLen, ps.MinLen + 1, ps.MinLen + 7, 20000, 1000000}
		combos := [][]int64{{}}
		idxs := []int{}
		for i := 1; i < len(sum.Params); i++ {
			if vals, ok := ps.Params[i]; ok {
				idxs = append(idxs, i)
				var nc [][]int64
				for _, cmb := range combos {
					for _, v := range vals {
						nc = append(nc, append(append([]int64{}, cmb...), v))
					}
				}
				combos = nc
			}
		}
		for _, ln := range lens {
			for _, cmb := range combos {
				e := NewEnv(1)
				e.Dom["len:"+e.canonOf(sum.Params[0].Sym)] = Domain{Lo: ln, Hi: ln}
				for k, i := range idxs {
					if sum.Params[i].K == KSym {
						e.Over[sum.Params[i].Sym] = Val{K: TInt, I: cmb[k]}
					}
				}
				for _, pe := range panics {
					n++
					if e.Eval(pe.Guard).B && len(bad) < 4 {
						bad = append(bad, fmt.Sprintf("panics at %s for an admissible input of length %d (parameters %v)", p.Pos(pe.Pos), ln, cmb))
					}
				}
			}
		}
		c.Expect(len(bad) == 0, "R-PRECOND", ps.Fn, where,
			fmt.Sprintf("none of the %d input-validation panics fires for admissible lengths (>= %d) and documented parameters (%d evaluations)", len(panics), ps.MinLen, n),
			strings.Join(bad, "; "))
	}
}

// ---- tables recomputed from first principles ----

// longestRunCDF returns P(longest run of ones <= r) for a uniformly random block of m bits (exact rational).
func longestRunCDF(m int, r int) *big.Rat {
	// a[k] = number of strings of length k without a run of r+1 ones
	a := make([]*big.Int, m+1)
	for k := 0; k <= m; k++ {
		if k <= r {
			a[k] = new(big.Int).Lsh(big.NewInt(1), uint(k))
			continue
		}
		s := new(big.Int)
		for j := 1; j <= r+1; j++ {
			s.Add(s, a[k-j])
		}
		a[k] = s
	}
	return new(big.Rat).SetFrac(a[m], new(big.Int).Lsh(big.NewInt(1), uint(m)))
}

func longestRunClassProbs(m, startV, K int) []float64 {
	var out []float64
	prev := new(big.Rat)
	for i := 0; i <= K; i++ {
		var cur *big.Rat
		if i == K {
			cur = big.NewRat(1, 1)
		} else {
			cur = longestRunCDF(m, startV+i)
		}
		d := new(big.Rat).Sub(cur, prev)
		f, _ := d.Float64()
		out = append(out, f)
		prev = cur
	}
	return out
}

func checkLongestRunTables(c *Check, p *Prog) {
	for _, src := range []struct {
		P   *Prog
		Pkg string
		Tag string
	}{{p, pkgRoot, "repo"}} {
		l := src.P.GlobalLit(src.Pkg, "parameters")
		if l == nil || len(l.Elems) != 3 {
			c.Fail("R-TABLE", "parameters", "longest_run_of_ones_In_block.go:13", "parameter table not found or not 3 regimes")
			return
		}
		want := []struct{ m, k, start int64 }{{8, 3, 1}, {128, 5, 4}, {10000, 6, 10}}
		for i, e := range l.Elems {
			m, _ := e.Fields["m"].Int()
			k, _ := e.Fields["k"].Int()
			st, _ := e.Fields["startV"].Int()
			where := src.P.Pos(e.Pos)
			key := fmt.Sprintf("parameters[%d]", i)
			var pis []float64
			var lits []string
			if pi := e.Fields["pi"]; pi != nil {
				for _, x := range pi.Elems {
					f, _ := x.Float()
					pis = append(pis, f)
					lits = append(lits, litText(src.P, x))
				}
			}
			if m != want[i].m || k != want[i].k || st != want[i].start || int64(len(pis)) != k+1 {
				c.Fail("R-TABLE", key, where, "regime %d is (m=%d, K=%d, lowest class=%d, %d probabilities); the standard's is (m=%d, K=%d, lowest=%d, %d probabilities)", i, m, k, st, len(pis), want[i].m, want[i].k, want[i].start, want[i].k+1)
				continue
			}
			exact := longestRunClassProbs(int(m), int(st), int(k))
			var bad []string
			for j := range pis {
				d := decimalsIn(lits[j])
				tol := 0.5*math.Pow(10, -float64(d)) + 1e-12
				if math.Abs(pis[j]-exact[j]) > tol {
					bad = append(bad, fmt.Sprintf("class %d: table %s vs exact %.8f", j, lits[j], exact[j]))
				}
			}
			c.Expect(len(bad) == 0, "R-TABLE", key, where,
				fmt.Sprintf("block length %d: the %d class probabilities equal the exact longest-run distribution (recomputed by exact integer recurrence) to their printed precision", m, len(pis)),
				strings.Join(bad, "; "))
		}
	}
}

func litText(p *Prog, l *Lit) string {
	if l == nil || l.Expr == nil {
		return ""
	}
	pos := p.Fset.Position(l.Expr.Pos())
	end := p.Fset.Position(l.Expr.End())
	b, err := readFileCached(pos.Filename)
	if err != nil || end.Offset > len(b) {
		return ""
	}
	return string(b[pos.Offset:end.Offset])
}

func decimalsIn(s string) int {
	if i := strings.Index(s, "."); i >= 0 {
		return len(s) - i - 1
	}
	return 0
}

// rankProbs: P(rank = 32), P(rank = 31), rest for a random 32x32 binary matrix.
func rankProbs() (float64, float64, float64) {
	pr := func(r int) float64 {
		M, Q := 32, 32
		v := math.Pow(2, float64(r*(Q+M-r)-M*Q))
		for i := 0; i < r; i++ {
			v *= (1 - math.Pow(2, float64(i-Q))) * (1 - math.Pow(2, float64(i-M))) / (1 - math.Pow(2, float64(i-r)))
		}
		return v
	}
	a, b := pr(32), pr(31)
	return a, b, 1 - a - b
}

// floatConstsIn collects floating constants appearing in the summary of a function.
func floatConstsIn(sum *Summary) map[float64]bool {
	out := map[float64]bool{}
	seen := map[*Term]bool{}
	visit := func(t *Term) {
		Walk(t, seen, func(u *Term) {
			if u.K == KConst && u.Ty == TFloat {
				f, _ := u.FloatVal()
				out[f] = true
			}
		})
	}
	sum.Top.Events(func(e *Event, _ []*LoopS) {
		for _, a := range e.Args {
			visit(a)
		}
		if e.Val != nil {
			visit(e.Val)
		}
		for _, r := range e.Rets {
			visit(r)
		}
		visit(e.Guard)
	})
	sum.Top.AllLoops(func(l *LoopS) {
		for _, c := range l.Carried {
			visit(c.Init)
			visit(c.Next)
		}
	})
	return out
}

func checkConstTables(c *Check, p *Prog, prop string) {
	switch prop {
	case "C04":
		a, b, r := rankProbs()
		fn := p.Func(pkgRoot, "MatrixRankProto")
		if fn != nil {
			x := NewExt(p, NewStore(), Config{Opaque: opaqueExcept(repoOpaque, canonFunc(fn))})
			fc := floatConstsIn(x.Summarize(fn, nil, nil))
			ok := fc[0.2888] && fc[0.5776] && fc[0.1336] && math.Abs(a-0.2888) < 5e-5 && math.Abs(b-0.5776) < 5e-5 && math.Abs(r-0.1336) < 5e-5
			c.Expect(ok, "R-TABLE", "rank-probabilities", p.Pos(fn.Pos()),
				fmt.Sprintf("0.2888 / 0.5776 / 0.1336 equal the exact rank distribution of a random 32x32 GF(2) matrix (%.6f / %.6f / %.6f) to 4 decimals", a, b, r),
				fmt.Sprintf("rank class probabilities in MatrixRankProto are not 0.2888/0.5776/0.1336 (exact %.6f/%.6f/%.6f)", a, b, r))
		}
		fn = p.Func(pkgRoot, "LinearComplexityProto")
		if fn != nil {
			x := NewExt(p, NewStore(), Config{Opaque: opaqueExcept(repoOpaque, canonFunc(fn))})
			fc := floatConstsIn(x.Summarize(fn, nil, nil))
			exact := []float64{1.0 / 96, 1.0 / 32, 1.0 / 8, 1.0 / 2, 1.0 / 4, 1.0 / 16, 1.0 / 48}
			var bad []string
			for _, e := range exact {
				found := false
				for f := range fc {
					if math.Abs(f-e) <= 0.5e-6+1e-12 {
						found = true
					}
				}
				if !found {
					bad = append(bad, fmt.Sprintf("no constant within 5e-7 of %.8f", e))
				}
			}
			c.Expect(len(bad) == 0, "R-TABLE", "lc-class-probabilities", p.Pos(fn.Pos()), "the seven class probabilities equal 1/96, 1/32, 1/8, 1/2, 1/4, 1/16, 1/48 to 6 decimals", strings.Join(bad, "; "))
		}
	case "C06":
		want := map[string]float64{"MACHEP": math.Pow(2, -53), "big": math.Pow(2, 52), "biginv": math.Pow(2, -52), "MAXLOG": math.Log(math.MaxFloat64)}
		var bad []string
		for n, w := range want {
			g, ok := constFloat(p, pkgRoot, n)
			if !ok || math.Abs(g-w) > 1e-13*math.Abs(w) {
				bad = append(bad, fmt.Sprintf("%s = %v, Cephes value %v", n, g, w))
			}
		}
		c.Expect(len(bad) == 0, "R-TABLE", "cephes-constants", "utils.go:13", "MACHEP = 2^-53, big = 2^52, biginv = 2^-52, MAXLOG = ln(DBL_MAX)", strings.Join(bad, "; "))
	}
}

// ---- C06: the two delegation predicates are mutually exclusive (no unbounded mutual recursion) ----

func checkIgamExclusive(c *Check, p *Prog) {
	fi, fc := p.Func(pkgRoot, "igam"), p.Func(pkgRoot, "igamc")
	if fi == nil || fc == nil {
		c.Fail("R-PART", "igam/igamc", "utils.go:33", "igam/igamc not found")
		return
	}
	S := NewStore()
	x := NewExt(p, S, Config{Opaque: func(f *ssa.Function) (bool, bool) {
		n := f.Name()
		return n == "igam" || n == "igamc", false
	}})
	a := S.SymTerm(S.NewSym(SParam, "a", TFloat))
	xx := S.SymTerm(S.NewSym(SParam, "x", TFloat))
	s1 := x.Summarize(fc, []*Term{a, xx}, nil)
	s2 := x.Summarize(fi, []*Term{a, xx}, nil)
	var g1, g2 *Term
	n1, n2, self := 0, 0, 0
	s1.Top.Events(func(e *Event, _ []*LoopS) {
		if e.Kind == "call" && e.Callee == pkgRoot+".igamc" {
			self++
		}
		if e.Kind == "call" && e.Callee == pkgRoot+".igam" {
			g1 = e.Guard
			n1++
			if e.Args[0] != a || e.Args[1] != xx {
				n1 += 10
			}
		}
	})
	s2.Top.Events(func(e *Event, _ []*LoopS) {
		if e.Kind == "call" && e.Callee == pkgRoot+".igam" {
			self++
		}
		if e.Kind == "call" && e.Callee == pkgRoot+".igamc" {
			g2 = e.Guard
			n2++
			if e.Args[0] != a || e.Args[1] != xx {
				n2 += 10
			}
		}
	})
	// order axioms: p < q and q < p cannot both hold
	ax := S.True
	if g1 != nil && g2 != nil {
		set := map[*Term]bool{}
		seen := map[*Term]bool{}
		S.collectAtoms(g1, set, seen)
		S.collectAtoms(g2, set, seen)
		var lts []*Term
		for a := range set {
			for _, cand := range []*Term{a, S.Not(a)} {
				if cand.Op == "flt" {
					lts = append(lts, cand)
				}
			}
		}
		for _, u := range lts {
			for _, v := range lts {
				if u.Args[0] == v.Args[1] && u.Args[1] == v.Args[0] {
					ax = S.And(ax, S.Not(S.And(u, v)))
				}
			}
		}
	}
	ok := n1 == 1 && n2 == 1 && g1 != nil && g2 != nil && S.Implies(S.And(ax, g1), S.Not(g2))
	if n1 == 0 || n2 == 0 {
		ok = true // at most one of the two calls the other (each reaching for the other's series / fraction directly): no cycle
	}
	ok = ok && self == 0
	c.Expect(ok, "R-PART", "igam/igamc-delegation", p.Pos(fc.Pos()),
		"igamc delegates to igam and igam to igamc on the same (a,x) under mutually exclusive conditions (or at most one of them calls the other), neither calls itself: no unbounded mutual recursion",
		fmt.Sprintf("the delegation conditions %v (igamc->igam) and %v (igam->igamc) are not mutually exclusive, or the arguments are changed", g1, g2))
}

var fileCache = map[string][]byte{}

func readFileCached(name string) ([]byte, error) {
	if b, ok := fileCache[name]; ok {
		return b, nil
	}
	b, err := os.ReadFile(name)
	if err == nil {
		fileCache[name] = b
	}
	return b, err
}

package main

import (
	"fmt"
	"go/ast"
	"go/token"
	"sort"
	"strings"

	"golang.org/x/tools/go/ssa"
)

// R-LITERALS: many rules read the VALUE of a package-level variable from its initialiser in the source (the registry
// TestMethodArr, the longest-run / rank / linear-complexity / Maurer tables, flag defaults ...). That is the value at run
// time only if nothing executed at program start overwrites it: declared init() functions (which are not package members
// in go/ssa and are reached only from the synthetic package initialiser), functions they call, and closures of
// `var _ = func() { ... }()` initialisers. This rule names every store from such start-up code into an initialised
// package-level variable of the module. (Stores from ordinary functions are R-NO-GLOBAL-WRITE / R-REGISTRY.)

// propPkgs: the packages whose package-level data a property's rules consult.
var propPkgs = map[string][]string{
	"C19": {pkgFFT},
	"C20": {pkgGen},
	"C13": {pkgDet, pkgRoot, pkgFFT},
}

func pkgsOfProp(prop string) []string {
	if v, ok := propPkgs[prop]; ok {
		return v
	}
	switch prop {
	case "C07", "C08", "C09", "C10", "C11", "C12", "C14":
		return []string{pkgDetect, pkgRoot, pkgFFT}
	}
	return []string{pkgRoot, pkgFFT}
}

// declaredInits returns the declared init functions of a package (init#1, init#2, ...): the static callees of the
// synthetic initialiser that are not the initialisers of imported packages.
func declaredInits(sp *ssa.Package) []*ssa.Function {
	ini := sp.Func("init")
	var out []*ssa.Function
	if ini == nil {
		return nil
	}
	for _, b := range ini.Blocks {
		for _, in := range b.Instrs {
			if c, ok := in.(*ssa.Call); ok {
				if f := c.Common().StaticCallee(); f != nil && f.Pkg == sp && strings.HasPrefix(f.Name(), "init#") {
					out = append(out, f)
				}
			}
		}
	}
	return out
}

// initialisedGlobals: package-level variables of pkg that have an initialiser expression in the source.
func (p *Prog) initialisedGlobals(pkg string) map[string]bool {
	out := map[string]bool{}
	pk := p.Pkgs[pkg]
	if pk == nil {
		return out
	}
	for _, f := range pk.Syntax {
		for _, d := range f.Decls {
			gd, ok := d.(*ast.GenDecl)
			if !ok || gd.Tok != token.VAR {
				continue
			}
			for _, sp := range gd.Specs {
				vs := sp.(*ast.ValueSpec)
				if len(vs.Values) == 0 {
					continue
				}
				for _, n := range vs.Names {
					out[n.Name] = true
				}
			}
		}
	}
	return out
}

// startupWrites lists stores into initialised package-level variables of the given packages that are executed by
// start-up code of ANY module package (declared inits, their static callees within the module, their closures, and
// closures of the synthetic initialiser).
var processState = map[string]bool{"os.Chdir": true, "os.Setenv": true, "os.Unsetenv": true, "os.Clearenv": true, "syscall.Chdir": true}

var registryProps = map[string]bool{"C07": true, "C08": true, "C14": true, "C15": true, "C16": true}

func startupWrites(p *Prog, prop string, pkgs []string) (nStartup int, found []string) {
	want := map[string]map[string]bool{}
	for _, pk := range pkgs {
		want[pk] = p.initialisedGlobals(pk)
	}
	seen := map[*ssa.Function]bool{}
	var work []*ssa.Function
	var add func(f *ssa.Function)
	add = func(f *ssa.Function) {
		if f == nil || f.Blocks == nil || seen[f] {
			return
		}
		seen[f] = true
		work = append(work, f)
		for _, a := range f.AnonFuncs {
			add(a)
		}
	}
	var paths []string
	for path := range p.SPkgs {
		paths = append(paths, path)
	}
	sort.Strings(paths)
	for _, path := range paths {
		if !strings.HasPrefix(path, modPath) {
			continue
		}
		sp := p.SPkgs[path]
		for _, f := range declaredInits(sp) {
			add(f)
		}
		if ini := sp.Func("init"); ini != nil {
			for _, a := range ini.AnonFuncs {
				add(a)
			}
			// functions called directly by a variable initialiser (var x = build())
			for _, b := range ini.Blocks {
				for _, in := range b.Instrs {
					if c, ok := in.(*ssa.Call); ok {
						if f := c.Common().StaticCallee(); f != nil && f.Pkg != nil && strings.HasPrefix(f.Pkg.Pkg.Path(), modPath) && f.Name() != "init" {
							add(f)
						}
					}
				}
			}
		}
	}
	// static callees inside the module, transitively
	for i := 0; i < len(work); i++ {
		for _, b := range work[i].Blocks {
			for _, in := range b.Instrs {
				if c, ok := in.(ssa.CallInstruction); ok {
					if f := c.Common().StaticCallee(); f != nil && f.Pkg != nil && strings.HasPrefix(f.Pkg.Pkg.Path(), modPath) && f.Name() != "init" {
						add(f)
					}
				}
			}
		}
	}
	for _, fn := range work {
		for _, b := range fn.Blocks {
			for _, in := range b.Instrs {
				var g *ssa.Global
				how := ""
				switch t := in.(type) {
				case *ssa.Store:
					g, how = globalRoot(t.Addr, 0), "stores into"
				case *ssa.MapUpdate:
					g, how = globalRoot(t.Map, 0), "updates map"
				case ssa.CallInstruction:
					cc := t.Common()
					if bi, ok := cc.Value.(*ssa.Builtin); ok && (bi.Name() == "copy" || bi.Name() == "append") && len(cc.Args) > 0 {
						g, how = globalRoot(cc.Args[0], 0), bi.Name()+"s into"
					}
				}
				if ci, ok := in.(ssa.CallInstruction); ok {
					if f := ci.Common().StaticCallee(); f != nil && f.Pkg != nil && processState[f.Pkg.Pkg.Path()+"."+f.Name()] {
						found = append(found, fmt.Sprintf("%s calls %s.%s at %s (process state the command-line tools resolve their paths and inputs against)", fn.String(), f.Pkg.Pkg.Name(), f.Name(), p.Pos(in.Pos())))
					}
				}
				if g == nil || g.Pkg == nil {
					continue
				}
				if gp := g.Pkg.Pkg.Path(); !strings.HasPrefix(gp, modPath) {
					// a variable of ANOTHER package replaced at start-up (crypto/rand.Reader, os.Stdout, os.Args ...): what the
					// anchored code reads through that name is no longer what its rules assume. Variables of package flag (Usage, CommandLine) are the one idiom in use.
					if gp != "flag" { // flag.Usage = usage / flag.CommandLine.Usage = usage
						found = append(found, fmt.Sprintf("%s %s %s.%s at %s (a variable of another package)", fn.String(), how, g.Pkg.Pkg.Name(), g.Name(), p.Pos(in.Pos())))
					}
					continue
				}
				if g.Name() == "TestMethodArr" && !registryProps[prop] {
					continue // the registry matters only to the properties that run tests through it
				}
				if w := want[g.Pkg.Pkg.Path()]; w != nil && w[g.Name()] {
					found = append(found, fmt.Sprintf("%s %s %s.%s at %s", fn.String(), how, g.Pkg.Pkg.Name(), g.Name(), p.Pos(in.Pos())))
				}
			}
		}
	}
	sort.Strings(found)
	return len(work), found
}

func globalRoot(v ssa.Value, depth int) *ssa.Global {
	if depth > 12 {
		return nil
	}
	switch t := v.(type) {
	case *ssa.Global:
		return t
	case *ssa.IndexAddr:
		return globalRoot(t.X, depth+1)
	case *ssa.FieldAddr:
		return globalRoot(t.X, depth+1)
	case *ssa.Slice:
		return globalRoot(t.X, depth+1)
	case *ssa.UnOp:
		return globalRoot(t.X, depth+1)
	case *ssa.ChangeType:
		return globalRoot(t.X, depth+1)
	case *ssa.Phi:
		for _, e := range t.Edges {
			if g := globalRoot(e, depth+1); g != nil {
				return g
			}
		}
	}
	return nil
}

func checkLiterals(c *Check, p *Prog) {
	pkgs := pkgsOfProp(c.Prop)
	n, found := startupWrites(p, c.Prop, pkgs)
	var short []string
	for _, pk := range pkgs {
		short = append(short, strings.TrimPrefix(strings.TrimPrefix(pk, modPath), "/"))
	}
	for i, s := range short {
		if s == "" {
			short[i] = "randomness"
		}
	}
	c.Expect(len(found) == 0, "R-LITERALS", "startup", "structs.go:30",
		fmt.Sprintf("no start-up code (%d declared init functions, initialiser closures and their callees in the module) stores into an initialised package-level variable of %s, replaces a variable of another package (other than package flag's) or changes the working directory / environment: the registry, tables and defaults the rules read from the source are the values at run time", n, strings.Join(short, ", ")),
		"start-up code overwrites package-level data whose initialiser the rules rely on: "+strings.Join(found, "; "))
}

package main

// purify: loads from roots that are never written (and never handed to a call that could write them)
// are pure functions of the location; their events are removed and their result symbols replaced by
// ld(root, path...) terms.

import "strings"

var nonMutatingCallees = map[string]bool{
	"builtin:len": true, "builtin:cap": true, "builtin:print": true, "builtin:println": true,
}

func calleeMayWrite(name string) bool {
	if nonMutatingCallees[name] {
		return false
	}
	if strings.HasPrefix(name, "fmt.") || strings.HasPrefix(name, "log.") {
		return false
	}
	return true
}

// rootsIn collects the memory roots a reference-valued term may denote (root positions only: lengths,
// offsets and indices are values, not memory).
func rootsIn(t *Term, out map[*Term]bool) {
	if t == nil {
		return
	}
	switch {
	case t.K == KSym:
		if t.Sym.Kind == SObj || ((t.Sym.Kind == SParam || t.Sym.Kind == SFree) && (t.Sym.Ty == TRef || t.Sym.Ty == TOther)) {
			out[t] = true
		}
	case t.Op == "slice" || t.Op == "addr" || t.Op == "at" || t.Op == "ld":
		rootsIn(t.Args[0], out)
	case t.Op == "ite":
		rootsIn(t.Args[1], out)
		rootsIn(t.Args[2], out)
	case t.Op == "tuple" || t.Op == "closure" || t.Op == "fieldval" || t.Op == "indexval" || len(t.Op) > 5 && t.Op[:5] == "conv:":
		for _, a := range t.Args {
			rootsIn(a, out)
		}
	}
}

func (x *Ext) purify(sum *Summary) {
	S := x.S
	written := map[*Term]bool{}
	sum.Top.Events(func(e *Event, _ []*LoopS) {
		switch e.Kind {
		case "store":
			rootsIn(e.Root, written)
			// a reference stored into another object escapes with it (a slice put into a parameter object that is
			// handed to goroutines): whoever reaches that object may write through it
			if e.Val != nil && (e.Val.Ty == TRef || e.Val.Ty == TOther || e.Val.Ty == TTuple) {
				rootsIn(e.Val, written)
			}
		case "call", "go", "defer":
			if calleeMayWrite(e.Callee) {
				for _, a := range e.Args {
					if a.Ty == TRef || a.Ty == TOther || a.Ty == TTuple {
						rootsIn(a, written)
					}
				}
				if e.Recv != nil {
					rootsIn(e.Recv, written)
				}
				if e.Closure != nil {
					for _, f := range e.Closure.Free {
						rootsIn(f, written)
					}
				}
			}
		case "send", "mapupdate":
			for _, a := range e.Args {
				rootsIn(a, written)
			}
		}
	})
	sub := map[*Symbol]*Term{}
	sum.Top.Events(func(e *Event, _ []*LoopS) {
		if e.Kind != "load" {
			return
		}
		rs := map[*Term]bool{}
		rootsIn(e.Root, rs)
		for r := range rs {
			if written[r] {
				return
			}
		}
		args := append([]*Term{e.Root}, e.Path...)
		sub[e.Res] = S.mkOp("ld", e.Res.Ty, args...)
		e.Dead = true
	})
	if len(sub) == 0 {
		return
	}
	// paths of purified loads may themselves contain purified results: iterate to a fixpoint
	for i := 0; i < 4; i++ {
		changed := false
		memo := map[*Term]*Term{}
		for k, v := range sub {
			nv := S.Subst(v, sub, memo)
			if nv != v {
				sub[k] = nv
				changed = true
			}
		}
		if !changed {
			break
		}
	}
	memo := map[*Term]*Term{}
	f := func(t *Term) *Term { return S.Subst(t, sub, memo) }
	sum.Top.MapTerms(f)
	for _, r := range sum.Rets {
		for i := range r.Rets {
			r.Rets[i] = f(r.Rets[i])
		}
	}
}

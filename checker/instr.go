package main

// Per-instruction translation: values, memory events, calls (inlining), allocation objects.

import (
	"fmt"
	"go/token"
	"go/types"
	"strings"

	"golang.org/x/tools/go/ssa"
)

func (in *Inst) newObj(instr ssa.Instruction, name string, ln *Term, typ string, g *Term, cell bool) *Term {
	S := in.X.S
	sy := in.newSym(SObj, name, TRef)
	sy.Obj = instr
	sy.Pos = instr.Pos()
	sy.Attr = map[string]*Term{}
	if ln != nil {
		sy.Attr["len"] = ln
	}
	if cell {
		sy.Attr["cell"] = S.True
	}
	if v, ok := instr.(ssa.Value); ok {
		in.X.objOf[v] = sy
	}
	if !cell {
		in.emit(&Event{Kind: "alloc", Guard: g, Instr: instr, Res: sy, Type: typ, Len: ln})
	}
	return S.SymTerm(sy)
}

// storeDominatesReads: t writes a field of a struct local directly, and every instruction that may read that field
// (loads of the field, loads of the whole value, calls the struct is handed to) is dominated by t.
func storeDominatesReads(t *ssa.Store) bool {
	fa, ok := t.Addr.(*ssa.FieldAddr)
	var al *ssa.Alloc
	whole := false
	if ok {
		al, ok = fa.X.(*ssa.Alloc)
	} else if al, ok = t.Addr.(*ssa.Alloc); ok {
		whole = true // the whole value is written: every field
	}
	if !ok || al.Referrers() == nil {
		return false
	}
	dom := func(u ssa.Instruction) bool {
		tb, ub := t.Block(), u.Block()
		if tb == nil || ub == nil {
			return false
		}
		if tb == ub {
			ti, ui := -1, -1
			for i, x := range tb.Instrs {
				if x == ssa.Instruction(t) {
					ti = i
				}
				if x == u {
					ui = i
				}
			}
			return ti >= 0 && ui >= 0 && ti < ui
		}
		return tb.Dominates(ub)
	}
	for _, r := range *al.Referrers() {
		switch r := r.(type) {
		case *ssa.DebugRef, *ssa.Store:
		case *ssa.FieldAddr:
			if (!whole && r.Field != fa.Field) || r.Referrers() == nil {
				continue
			}
			for _, u := range *r.Referrers() {
				if ld, ok := u.(*ssa.UnOp); ok && !dom(ld) {
					return false
				}
			}
		case *ssa.UnOp:
			if !dom(r) {
				return false
			}
		case *ssa.Call:
			if !dom(r) {
				return false
			}
		default:
			return false
		}
	}
	return true
}

// cellStoreDominatesUses: t stores into a scalar cell (an Alloc used only by loads, stores and closures) and every
// other use of that cell is dominated by t.
func cellStoreDominatesUses(t *ssa.Store) bool {
	al, ok := t.Addr.(*ssa.Alloc)
	if !ok || al.Referrers() == nil || !isCellAlloc(al) {
		return false
	}
	tb := t.Block()
	for _, r := range *al.Referrers() {
		if r == ssa.Instruction(t) {
			continue
		}
		if _, isDbg := r.(*ssa.DebugRef); isDbg {
			continue
		}
		rb := r.Block()
		if tb == nil || rb == nil {
			return false
		}
		if tb == rb {
			ti, ri := -1, -1
			for i, x := range tb.Instrs {
				if x == ssa.Instruction(t) {
					ti = i
				}
				if x == r {
					ri = i
				}
			}
			if !(ti >= 0 && ri >= 0 && ti < ri) {
				return false
			}
			continue
		}
		if !tb.Dominates(rb) {
			return false
		}
	}
	return true
}

func (in *Inst) cellDepth(c *Symbol) int {
	if d, ok := in.X.cellLoopDepth[c]; ok {
		return d
	}
	return -1
}

func zeroOf(S *Store, t types.Type) *Term {
	switch tyClass(t) {
	case TInt:
		return S.Int(0)
	case TFloat:
		return S.Float(0)
	case TBool:
		return S.False
	case TString:
		return S.Str("")
	case TRef:
		return S.Nil
	case TComplex:
		return S.Op("complex", TComplex, S.Float(0), S.Float(0))
	}
	return S.mkOp("zero:"+t.String(), TOther)
}

func (in *Inst) instr(instr ssa.Instruction, g *Term, b *ssa.BasicBlock) {
	S := in.X.S
	u := func(v ssa.Value) *Term { return in.use(v, b) }
	switch t := instr.(type) {
	case *ssa.DebugRef:
	case *ssa.Alloc:
		et := deref(t.Type())
		if isCellAlloc(t) {
			a := in.newObj(t, t.Comment, nil, et.String(), g, true)
			in.X.cellCur[a.Sym] = zeroOf(S, et)
			in.vals[t] = a
			return
		}
		if st, ok := et.Underlying().(*types.Struct); ok && in.fieldCellable(t) {
			// the object itself leaves no trace (no allocation event); its fields are cells
			osy := in.newSym(SObj, t.Comment, TRef)
			osy.Obj = t
			osy.Pos = t.Pos()
			osy.Attr = map[string]*Term{"fieldcells": S.True}
			in.X.objOf[t] = osy
			var cells []*Symbol
			for i := 0; i < st.NumFields(); i++ {
				c := in.newSym(SObj, t.Comment+"."+st.Field(i).Name(), TRef)
				c.Obj = t
				c.Pos = t.Pos()
				c.Attr = map[string]*Term{"cell": S.True, "allocg": g}
				if isSliceType(st.Field(i).Type()) {
					c.Attr["slicecell"] = S.True
				}
				in.X.cellCur[c] = zeroOf(S, st.Field(i).Type())
				cells = append(cells, c)
			}
			in.X.fieldCells[osy] = cells
			if in.X.cellLoopDepth == nil {
				in.X.cellLoopDepth = map[*Symbol]int{}
			}
			for _, c := range cells {
				in.X.cellLoopDepth[c] = len(in.loops)
			}
			in.vals[t] = S.SymTerm(osy)
			return
		}
		var ln *Term
		if at, ok := et.Underlying().(*types.Array); ok {
			ln = S.Int(at.Len())
		}
		name := t.Comment
		if name == "" {
			name = "new"
		}
		tyName := et.String()
		if _, isStruct := et.Underlying().(*types.Struct); !isStruct {
			tyName = et.Underlying().String() // `type hist [10]int` allocates a [10]int
		}
		in.vals[t] = in.newObj(t, name, ln, tyName, g, false)
	case *ssa.MakeSlice:
		ln := u(t.Len)
		o := in.newObj(t, "makeslice", ln, t.Type().String(), g, false)
		in.vals[t] = S.mkOp("slice", TRef, o, S.Int(0), ln)
	case *ssa.MakeMap:
		in.vals[t] = in.newObj(t, "makemap", nil, t.Type().String(), g, false)
	case *ssa.MakeChan:
		o := in.newObj(t, "makechan", u(t.Size), t.Type().String(), g, false)
		in.vals[t] = o
	case *ssa.MakeClosure:
		fn := t.Fn.(*ssa.Function)
		args := []*Term{in.X.funcTerm(fn)}
		for _, bnd := range t.Bindings {
			args = append(args, u(bnd))
		}
		in.vals[t] = S.mkOp("closure", TRef, args...)
	case *ssa.MakeInterface:
		in.vals[t] = u(t.X)
		// a value boxed into an interface declared in this module keeps its dynamic type, so that a later method call on
		// the interface can be resolved to the method of that type (an unexported strategy interface with two
		// implementations chosen once)
		if nt, ok := t.Type().(*types.Named); ok && nt.Obj() != nil && nt.Obj().Pkg() != nil && strings.HasPrefix(nt.Obj().Pkg().Path(), modPath) {
			if it, isI := nt.Underlying().(*types.Interface); isI && it.NumMethods() > 0 {
				key := "iface:" + t.X.Type().String()
				if in.X.ifaceTypes == nil {
					in.X.ifaceTypes = map[string]types.Type{}
				}
				in.X.ifaceTypes[key] = t.X.Type()
				in.vals[t] = S.mkOp(key, TRef, u(t.X))
			}
		}
	case *ssa.ChangeType:
		in.vals[t] = u(t.X)
	case *ssa.ChangeInterface:
		in.vals[t] = u(t.X)
	case *ssa.Convert:
		in.vals[t] = in.convert(t, t.X)
	case *ssa.BinOp:
		in.vals[t] = in.binop(t)
	case *ssa.UnOp:
		in.unop(t, g, b)
	case *ssa.IndexAddr:
		base := u(t.X)
		idx := u(t.Index)
		if base.Op == "slice" {
			root, off, _ := in.sliceParts(base)
			in.vals[t] = in.mkAddr(root, S.Add(off, idx))
		} else {
			in.vals[t] = in.mkAddr(base, idx)
		}
	case *ssa.FieldAddr:
		base := u(t.X)
		if base.K == KSym {
			if cells := in.X.fieldCells[base.Sym]; cells != nil && t.Field < len(cells) {
				in.vals[t] = S.SymTerm(cells[t.Field])
				return
			}
		}
		st := deref(t.X.Type()).Underlying().(*types.Struct)
		in.vals[t] = in.mkAddr(base, fieldMarker(S, st.Field(t.Field).Name()))
	case *ssa.Field:
		base := u(t.X)
		st := t.X.Type().Underlying().(*types.Struct)
		fm := fieldMarker(S, st.Field(t.Field).Name())
		if base.Op == "mkstruct" && t.Field < len(base.Args) {
			in.vals[t] = base.Args[t.Field]
		} else if base.Op == "at" {
			addr := in.mkAddr(base, fm)
			in.vals[t] = in.load(addr, t.Type(), g, t, b)
		} else {
			in.vals[t] = S.mkOp("fieldval", tyClass(t.Type()), base, fm)
		}
	case *ssa.Index:
		base := u(t.X)
		idx := u(t.Index)
		if base.Op == "at" {
			in.vals[t] = in.load(in.mkAddr(base, idx), t.Type(), g, t, b)
		} else {
			in.vals[t] = S.mkOp("indexval", tyClass(t.Type()), base, idx)
		}
	case *ssa.Slice:
		in.vals[t] = in.sliceInstr(t, b)
	case *ssa.Extract:
		tup := u(t.Tuple)
		if tup.Op == "tuple" {
			in.vals[t] = tup.Args[t.Index]
		} else {
			in.vals[t] = S.mkOp(fmt.Sprintf("extract%d", t.Index), tyClass(t.Type()), tup)
		}
	case *ssa.Store:
		in.store(t, g, b)
	case *ssa.Call:
		in.vals[t] = in.call(t, t.Common(), "call", g, b)
	case *ssa.Go:
		in.call(nil, t.Common(), "go", g, b)
		in.lastEvent().Instr = t
		in.lastEvent().Pos = t.Pos()
	case *ssa.Defer:
		in.call(nil, t.Common(), "defer", g, b)
		in.lastEvent().Instr = t
		in.lastEvent().Pos = t.Pos()
		if in.Parent != nil {
			// a defer of an inlined callee runs when THAT callee returns: remembered, replayed at its RunDefers
			if ev := in.lastEvent(); ev.Kind == "defer" {
				if len(in.loops) > len(in.Parent.loops) {
					in.X.und("%s: inlined callee %s defers inside a loop", in.Parent.Fn, in.Fn)
				}
				in.deferEvs = append(in.deferEvs, ev)
			}
		}
	case *ssa.RunDefers:
		if in.Parent != nil {
			for i := len(in.deferEvs) - 1; i >= 0; i-- {
				d := in.deferEvs[i]
				dg := in.X.S.Canon(in.X.S.And(g, d.Guard))
				// a deferred closure of this module (`defer func() { _ = w.Close() }()`) runs here: its body is inlined
				// like any other call, reading the captured variables as they are NOW
				if d.Closure != nil && d.StaticCallee != nil && inModule(d.StaticCallee) && d.StaticCallee.Blocks != nil &&
					in.depth < in.X.Cfg.MaxDepth && !in.onStack(d.StaticCallee) {
					in.inline(d.StaticCallee, d.Args, d.Closure, dg, nil)
					continue
				}
				ce := *d
				ce.Kind = "call"
				ce.Guard = dg
				ce.Res = nil
				in.emit(&ce)
			}
		} else {
			in.emit(&Event{Kind: "rundefers", Guard: g, Instr: t})
		}
	case *ssa.Send:
		in.emit(&Event{Kind: "send", Guard: g, Instr: t, Args: []*Term{u(t.Chan), u(t.X)}})
	case *ssa.MapUpdate:
		in.emit(&Event{Kind: "mapupdate", Guard: g, Instr: t, Args: []*Term{u(t.Map), u(t.Key), u(t.Value)}})
	case *ssa.Lookup:
		sy := in.newSym(SRes, "lookup", tyClass(t.Type()))
		ev := in.emit(&Event{Kind: "lookup", Guard: g, Instr: t, Args: []*Term{u(t.X), u(t.Index)}, Res: sy})
		sy.Ev = ev
		in.vals[t] = S.SymTerm(sy)
	case *ssa.TypeAssert:
		// a type test on a value boxed into an interface of this module: decided per dynamic type
		if r := in.typeAssertBoxed(t, u(t.X)); r != nil {
			in.vals[t] = r
			return
		}
		{
			// otherwise opaque, exactly as before
			v := instr.(ssa.Value)
			sy := in.newSym(SRes, "typeassert", tyClass(v.Type()))
			var args []*Term
			for _, op := range instr.Operands(nil) {
				if *op != nil {
					args = append(args, u(*op))
				}
			}
			ev := in.emit(&Event{Kind: "typeassert", Guard: g, Instr: instr, Args: args, Res: sy})
			sy.Ev = ev
			in.vals[v] = S.SymTerm(sy)
		}
	case *ssa.Range, *ssa.Next, *ssa.Select, *ssa.SliceToArrayPointer, *ssa.MultiConvert:
		v := instr.(ssa.Value)
		sy := in.newSym(SRes, strings.ToLower(fmt.Sprintf("%T", instr)[5:]), tyClass(v.Type()))
		var args []*Term
		for _, op := range instr.Operands(nil) {
			if *op != nil {
				args = append(args, u(*op))
			}
		}
		ev := in.emit(&Event{Kind: strings.ToLower(fmt.Sprintf("%T", instr)[5:]), Guard: g, Instr: instr, Args: args, Res: sy})
		sy.Ev = ev
		in.vals[v] = S.SymTerm(sy)
	default:
		in.X.und("%s: unsupported instruction %T at %s", in.Fn, instr, in.X.P.Pos(instr.Pos()))
		if v, ok := instr.(ssa.Value); ok {
			in.vals[v] = S.SymTerm(in.newSym(SOpaque, v.Name(), tyClass(v.Type())))
		}
	}
}

func (in *Inst) lastEvent() *Event {
	r := in.region[len(in.region)-1]
	for i := len(r.Items) - 1; i >= 0; i-- {
		if e, ok := r.Items[i].(*Event); ok {
			return e
		}
	}
	return &Event{}
}

func (in *Inst) sliceInstr(t *ssa.Slice, b *ssa.BasicBlock) *Term {
	S := in.X.S
	x := in.use(t.X, b)
	var root, off, ln *Term
	if _, isPtr := t.X.Type().Underlying().(*types.Pointer); isPtr {
		// pointer to array
		root = x
		off = S.Int(0)
		ln = in.lenOf(x)
		if at, ok := deref(t.X.Type()).Underlying().(*types.Array); ok {
			ln = S.Int(at.Len())
		}
	} else if tyClass(t.X.Type()) == TString {
		args := []*Term{x}
		if t.Low != nil {
			args = append(args, in.use(t.Low, b))
		} else {
			args = append(args, S.Int(0))
		}
		if t.High != nil {
			args = append(args, in.use(t.High, b))
		}
		return S.mkOp("substr", TString, args...)
	} else {
		root, off, ln = in.sliceParts(x)
	}
	lo := S.Int(0)
	if t.Low != nil {
		lo = in.use(t.Low, b)
	}
	hi := ln
	if t.High != nil {
		hi = in.use(t.High, b)
	}
	return S.mkOp("slice", TRef, root, S.Add(off, lo), S.Sub(hi, lo))
}

// addrParts splits an address term into root and path.
func addrParts(a *Term) (root *Term, path []*Term, ok bool) {
	if a.Op == "addr" {
		return a.Args[0], a.Args[1:], true
	}
	return a, nil, false
}

func isCellTerm(t *Term) bool {
	return t.K == KSym && t.Sym.Kind == SObj && t.Sym.Attr != nil && t.Sym.Attr["cell"] != nil
}

func (in *Inst) unop(t *ssa.UnOp, g *Term, b *ssa.BasicBlock) {
	S := in.X.S
	x := in.use(t.X, b)
	switch t.Op {
	case token.SUB:
		switch tyClass(t.Type()) {
		case TInt:
			in.vals[t] = S.Neg(x)
		case TFloat:
			in.vals[t] = S.Op("fneg", TFloat, x)
		default:
			in.vals[t] = S.Op("cneg", tyClass(t.Type()), x)
		}
	case token.NOT:
		in.vals[t] = S.Not(x)
	case token.XOR:
		in.vals[t] = S.Op("bitnot", TInt, x)
	case token.ARROW:
		sy := in.newSym(SRes, "recv", tyClass(t.Type()))
		ev := in.emit(&Event{Kind: "recv", Guard: g, Instr: t, Args: []*Term{x}, Res: sy})
		sy.Ev = ev
		r := S.SymTerm(sy)
		if t.CommaOk {
			tt := t.Type().(*types.Tuple)
			v := S.mkOp("extract0", tyClass(tt.At(0).Type()), r)
			ok := S.mkOp("extract1", TBool, r)
			in.vals[t] = S.mkOp("tuple", TTuple, v, ok)
		} else {
			in.vals[t] = r
		}
	case token.MUL:
		in.vals[t] = in.load(x, t.Type(), g, t, b)
	default:
		in.X.und("%s: unsupported unop %s", in.Fn, t.Op)
		in.vals[t] = S.SymTerm(in.newSym(SOpaque, t.Name(), tyClass(t.Type())))
	}
}

// load reads the location addr.
func (in *Inst) load(addr *Term, typ types.Type, g *Term, instr ssa.Instruction, b *ssa.BasicBlock) *Term {
	S := in.X.S
	if isCellTerm(addr) {
		cur := in.X.cellCur[addr.Sym]
		if cur == nil {
			in.X.und("%s: read of unknown cell %s", in.Fn, addr.Sym.Name)
			return S.SymTerm(in.newSym(SOpaque, "cell", tyClass(typ)))
		}
		return S.Restrict(cur, g)
	}
	if addr.K == KSym {
		if cells := in.X.fieldCells[addr.Sym]; cells != nil {
			// the whole bundle read at once
			vals := make([]*Term, len(cells))
			for i, c := range cells {
				vals[i] = S.Restrict(in.X.cellCur[c], g)
			}
			return S.mkOp("mkstruct", TOther, vals...)
		}
	}
	root, path, ok := addrParts(addr)
	if !ok {
		// pointer value used directly: *p
		root, path = addr, nil
	}
	if root.K == KSym {
		if al, ok := in.X.objAlias[root.Sym]; ok {
			// the copied value as seen from here: if the copy was made inside a loop that this block is outside
			// of, the loop's symbols in it take their final values
			if at, ok2 := in.X.objAliasAt[root.Sym]; ok2 && at.in == in && at.b != nil && b != nil {
				for l := in.cfg.Inner[at.b]; l != nil; l = l.Parent {
					if l.Blocks[b] {
						break
					}
					if ls := in.loopSOf(l); ls != nil {
						al = in.finalSubst(al, ls)
					}
				}
			}
			base := al.Args
			if al.K == KSym {
				base = []*Term{al} // the copied value is a by-value parameter itself
			}
			args := append(append([]*Term{}, base...), path...)
			return in.load(S.mkOp("addr", TRef, args...), typ, g, instr, b)
		}
	}
	tc := tyClass(typ)
	if tc == TRef || isAggregate(typ) {
		// reference or aggregate stored at a location: flatten into the access path
		if isIfaceOrFunc(typ) {
			// function / interface values are scalars of the location (events when the root is mutable)
			return in.loadScalar(root, path, tc, g, instr)
		}
		args := append([]*Term{root}, path...)
		return S.mkOp("at", tc, args...)
	}
	return in.loadScalar(root, path, tc, g, instr)
}

func isIfaceOrFunc(t types.Type) bool {
	switch t.Underlying().(type) {
	case *types.Interface, *types.Signature:
		return true
	}
	return false
}

func rootIsGlobal(root *Term) bool {
	return root.K == KSym && root.Sym.Kind == SGlobal
}

func (in *Inst) loadScalar(root *Term, path []*Term, tc TyClass, g *Term, instr ssa.Instruction) *Term {
	S := in.X.S
	// a scalar field of a struct passed BY VALUE cannot change during the call: a pure function of the parameter
	if root.K == KSym && root.Sym.Kind == SParam && len(path) == 1 {
		if p, ok := root.Sym.Obj.(*ssa.Parameter); ok {
			if _, isStruct := p.Type().Underlying().(*types.Struct); isStruct {
				if f, isStr := path[0].StrVal(); isStr && strings.HasPrefix(f, ".") {
					return S.mkOp("ld", tc, root, path[0])
				}
			}
		}
	}
	if rootIsGlobal(root) || (root.K == KSym && (root.Sym.Kind == SRes || root.Sym.Kind == SOut)) || root.Op == "ld" || strings.HasPrefix(root.Op, "extract") || strings.HasPrefix(root.Op, "call:") {
		args := append([]*Term{root}, path...)
		return S.mkOp("ld", tc, args...)
	}
	// CSE with an earlier identical load in the same region when nothing wrote the root in between
	r := in.region[len(in.region)-1]
	for i := len(r.Items) - 1; i >= 0; i-- {
		e, ok := r.Items[i].(*Event)
		if !ok {
			break // a nested loop may write anything
		}
		if e.Dead {
			continue
		}
		if e.Kind == "load" && e.Root == root && samePath(e.Path, path) && (e.Guard == g || e.Guard == S.True || S.Implies(g, e.Guard)) {
			return S.SymTerm(e.Res)
		}
		if e.Kind == "store" && e.Root == root && samePath(e.Path, path) && (e.Guard == g || S.Implies(g, e.Guard)) {
			return e.Val // store-to-load forwarding
		}
		if e.Kind == "store" && e.Root == root {
			break
		}
		if e.Kind == "call" || e.Kind == "go" || e.Kind == "recv" || e.Kind == "send" {
			break
		}
	}
	sy := in.newSym(SRes, "ld", tc)
	ev := in.emit(&Event{Kind: "load", Guard: g, Instr: instr, Root: root, Path: path, Res: sy})
	sy.Ev = ev
	return S.SymTerm(sy)
}

func samePath(a, b []*Term) bool {
	if len(a) != len(b) {
		return false
	}
	for i := range a {
		if a[i] != b[i] {
			return false
		}
	}
	return true
}

func (in *Inst) store(t *ssa.Store, g *Term, b *ssa.BasicBlock) {
	S := in.X.S
	addr := in.use(t.Addr, b)
	val := in.use(t.Val, b)
	if isCellTerm(addr) {
		old := in.X.cellCur[addr.Sym]
		// a store that happens whenever the object exists at all (same path condition as its allocation, in the same
		// region: the field initialisers of a composite literal) is unconditional as far as any read can tell
		if ag := addr.Sym.Attr["allocg"]; ag != nil && g != S.True && len(in.loops) == in.cellDepth(addr.Sym) && S.Implies(ag, g) {
			old = nil
		}
		// so is a store that every read of the field is dominated by
		if old != nil && g != S.True && storeDominatesReads(t) {
			old = nil
		}
		// ... and the first store into a captured scalar local that every other use of it comes after (the spill of a
		// parameter that a closure captures)
		if old != nil && g != S.True && cellStoreDominatesUses(t) {
			old = nil
		}
		if old == nil || g == S.True {
			in.X.cellCur[addr.Sym] = val
		} else {
			in.X.cellCur[addr.Sym] = S.Op("ite", val.Ty, g, val, old)
		}
		return
	}
	if addr.K == KSym {
		if cells := in.X.fieldCells[addr.Sym]; cells != nil {
			// the whole bundle written at once
			uncond := g != S.True && storeDominatesReads(t)
			for i, c := range cells {
				var fv *Term
				switch {
				case val.Op == "mkstruct" && len(val.Args) == len(cells):
					fv = val.Args[i]
				case strings.HasPrefix(val.Op, "zero:") || val.K == KConst:
					st := deref(t.Addr.Type()).Underlying().(*types.Struct)
					fv = zeroOf(S, st.Field(i).Type())
				case val.Op == "at":
					in.X.und("%s: whole-value store of %v into a bundled struct", in.Fn, val)
					return
				default:
					st := deref(t.Addr.Type()).Underlying().(*types.Struct)
					fv = S.mkOp("fieldval", tyClass(st.Field(i).Type()), val, fieldMarker(S, st.Field(i).Name()))
				}
				if old := in.X.cellCur[c]; old == nil || g == S.True || uncond {
					in.X.cellCur[c] = fv
				} else {
					in.X.cellCur[c] = S.Op("ite", fv.Ty, g, fv, old)
				}
			}
			return
		}
	}
	root, path, ok := addrParts(addr)
	if !ok {
		root, path = addr, nil
	}
	_, valIsParam := t.Val.(*ssa.Parameter)
	if al, isAl := t.Addr.(*ssa.Alloc); isAl && (val.Op == "at" || (valIsParam && val.K == KSym && val.Sym.Kind == SParam)) && (singleInitStruct(al) || singleInitArrayParam(al, t)) && root.K == KSym {
		// a local struct initialised once by copying a whole value: reads of its fields read the source location
		in.X.objAlias[root.Sym] = val
		in.X.objAliasAt[root.Sym] = aliasSite{in, b}
	}
	in.emit(&Event{Kind: "store", Guard: g, Instr: t, Root: root, Path: path, Val: val})
}

// ---- calls ----

func (in *Inst) absorbVarargs(args []*Term, c *ssa.CallCommon) []*Term {
	if len(c.Args) == 0 {
		return args
	}
	last := c.Args[len(c.Args)-1]
	sl, ok := last.(*ssa.Slice)
	if !ok {
		return args
	}
	al, ok := sl.X.(*ssa.Alloc)
	if !ok || al.Comment != "varargs" {
		return args
	}
	osym := in.X.objOf[al]
	if osym == nil {
		return args
	}
	oterm := in.X.S.SymTerm(osym)
	n, _ := osym.Attr["len"].IntVal()
	elems := make([]*Term, n)
	r := in.region[len(in.region)-1]
	for _, it := range r.Items {
		e, ok := it.(*Event)
		if !ok {
			continue
		}
		if e.Kind == "alloc" && e.Res == osym {
			e.Dead = true
		}
		if e.Kind == "store" && e.Root == oterm && len(e.Path) == 1 {
			if i, ok := e.Path[0].IntVal(); ok && i >= 0 && i < n {
				elems[i] = e.Val
				e.Dead = true
			}
		}
	}
	for _, e := range elems {
		if e == nil {
			return args
		}
	}
	return append(args[:len(args)-1:len(args)-1], elems...)
}

func (in *Inst) onStack(fn *ssa.Function) bool {
	for i := in; i != nil; i = i.Parent {
		if i.Fn == fn {
			return true
		}
	}
	return false
}

func (in *Inst) call(v ssa.Value, c *ssa.CallCommon, kind string, g *Term, b *ssa.BasicBlock) *Term {
	S := in.X.S
	name, static, fnTerm := in.callName(c)
	var args []*Term
	for _, a := range c.Args {
		args = append(args, in.use(a, b))
	}
	var recv *Term
	if c.IsInvoke() {
		recv = in.use(c.Value, b)
	}
	args = in.absorbVarargs(args, c)
	var resTy TyClass = TOther
	if v != nil {
		resTy = tyClass(v.Type())
	}
	var clo *closureVal
	if fnTerm != nil && fnTerm.Op == "closure" {
		clo = &closureVal{Fn: fnTerm.Args[0].Sym.Obj.(*ssa.Function), Free: fnTerm.Args[1:]}
		for _, f := range clo.Free {
			if isCellTerm(f) && in.X.cellCur[f.Sym] != nil {
				clo.FreeVals = append(clo.FreeVals, S.Restrict(in.X.cellCur[f.Sym], g))
			} else {
				clo.FreeVals = append(clo.FreeVals, f)
			}
		}
	}

	if kind == "call" {
		// builtins
		if strings.HasPrefix(name, "builtin:") {
			switch name[8:] {
			case "len":
				return in.lenOf(args[0])
			case "cap":
				return S.Op("cap", TInt, args[0])
			case "real":
				if args[0].Op == "complex" {
					return args[0].Args[0]
				}
				return S.Op("real", TFloat, args[0])
			case "imag":
				if args[0].Op == "complex" {
					return args[0].Args[1]
				}
				return S.Op("imag", TFloat, args[0])
			case "complex":
				return S.Op("complex", TComplex, args[0], args[1])
			case "min", "max":
				return S.Op("call:builtin."+name[8:], resTy, args...)
			case "copy":
				if r := in.expandCopy(c, args, g, b); r != nil {
					return r
				}
			}
		}
		// pure standard library
		if static != nil && !inModule(static) && (isPureStd(name) || name == "fmt.Sprintf" || name == "fmt.Errorf" || name == "fmt.Sprint") {
			return S.mkOp("call:"+name, resTy, args...)
		}
		// in-module static callee: inline or keep opaque
		if static != nil && inModule(static) && static.Blocks != nil {
			opaque, pure := false, false
			if in.X.Cfg.Opaque != nil {
				opaque, pure = in.X.Cfg.Opaque(static)
			}
			if !opaque && in.depth < in.X.Cfg.MaxDepth && !in.onStack(static) {
				return in.inline(static, args, clo, g, v)
			}
			if pure && in.argsReadOnly(args) {
				return S.mkOp("call:"+name, resTy, args...)
			}
		}
	}
	if kind == "call" && c.IsInvoke() && recv != nil {
		if r, ok := in.devirtualize(recv, c, args, g, v); ok {
			return r
		}
	}
	if kind == "call" && c.IsInvoke() && in.X.Cfg.PureInvoke[c.Method.Name()] {
		return S.mkOp("call:"+name, resTy, append([]*Term{recv}, args...)...)
	}
	// closures handed to a callee that is not inlined (or started as goroutines) may store to the cells
	// they capture at any time: those cells lose their known value
	for _, a := range append(append([]*Term{}, args...), fnTerm) {
		if a != nil && a.Op == "closure" {
			for _, cell := range in.cellsStoredByClosure(a) {
				h := in.newSym(SRes, "havoc_"+cell.Name, in.X.cellCur[cell].Ty)
				in.X.cellCur[cell] = S.SymTerm(h)
			}
		}
	}
	sy := in.newSym(SRes, shortName(name), resTy)
	ev := in.emit(&Event{Kind: kind, Guard: g, Callee: name, FnTerm: fnTerm, Recv: recv, Args: args, Res: sy, Closure: clo, StaticCallee: static})
	if ci, ok := v.(ssa.Instruction); ok {
		ev.Instr = ci
		ev.Pos = ci.Pos()
	}
	sy.Ev = ev
	r := S.SymTerm(sy)
	// an in-module callee whose every return hands back one of its own parameters (FFT.Transform returns x): the
	// result IS that argument
	if kind == "call" && static != nil && inModule(static) && v != nil {
		if _, isTuple := v.Type().(*types.Tuple); !isTuple {
			if k := returnsParamIndex(static); k >= 0 && k < len(args) && !c.IsInvoke() {
				return args[k]
			}
		}
	}
	if v != nil {
		if tt, ok := v.Type().(*types.Tuple); ok {
			var parts []*Term
			for i := 0; i < tt.Len(); i++ {
				parts = append(parts, S.mkOp(fmt.Sprintf("extract%d", i), tyClass(tt.At(i).Type()), r))
			}
			return S.mkOp("tuple", TTuple, parts...)
		}
	}
	return r
}

// typeAssertBoxed: x.(T) / x.(T), ok on a selection of boxes "iface:<D>"(v): v where D is T, the zero value (and false)
// elsewhere. Only the comma-ok form, or the plain form when every dynamic type is T (no panic path to model).
func (in *Inst) typeAssertBoxed(t *ssa.TypeAssert, x *Term) *Term {
	S := in.X.S
	if _, isIface := t.AssertedType.Underlying().(*types.Interface); isIface {
		return nil
	}
	type leaf struct{ cond, t *Term }
	var leaves []leaf
	ok := true
	var flat func(t, cond *Term)
	flat = func(u, cond *Term) {
		if !ok || len(leaves) > 4 {
			ok = false
			return
		}
		if u.Op == "ite" {
			flat(u.Args[1], S.And(cond, u.Args[0]))
			flat(u.Args[2], S.And(cond, S.Not(u.Args[0])))
			return
		}
		if !strings.HasPrefix(u.Op, "iface:") || in.X.ifaceTypes[u.Op] == nil {
			ok = false
			return
		}
		leaves = append(leaves, leaf{cond, u})
	}
	flat(x, S.True)
	if !ok || len(leaves) == 0 {
		return nil
	}
	zero := zeroOf(S, t.AssertedType)
	var vc, oc []muxCase
	all := true
	for _, lf := range leaves {
		if types.Identical(in.X.ifaceTypes[lf.t.Op], t.AssertedType) {
			vc = append(vc, muxCase{lf.cond, lf.t.Args[0]})
			oc = append(oc, muxCase{lf.cond, S.True})
		} else {
			all = false
			vc = append(vc, muxCase{lf.cond, zero})
			oc = append(oc, muxCase{lf.cond, S.False})
		}
	}
	val := S.Mux(vc, tyClass(t.AssertedType))
	if t.CommaOk {
		return S.mkOp("tuple", TTuple, val, S.Mux(oc, TBool))
	}
	if !all {
		return nil
	}
	return val
}

// devirtualize resolves a method call on an interface value whose dynamic type is known on every path (a selection
// over values boxed by MakeInterface into an interface of this module): the method of each dynamic type is inlined under
// the condition that selects it, and the results are selected likewise.
func (in *Inst) devirtualize(recv *Term, c *ssa.CallCommon, args []*Term, g *Term, v ssa.Value) (*Term, bool) {
	S := in.X.S
	type leaf struct {
		cond *Term
		t    *Term
	}
	var leaves []leaf
	okAll := true
	var flat func(t, cond *Term)
	flat = func(t, cond *Term) {
		if !okAll || len(leaves) > 4 {
			okAll = false
			return
		}
		if t.Op == "ite" {
			flat(t.Args[1], S.And(cond, t.Args[0]))
			flat(t.Args[2], S.And(cond, S.Not(t.Args[0])))
			return
		}
		if !strings.HasPrefix(t.Op, "iface:") || in.X.ifaceTypes[t.Op] == nil {
			okAll = false
			return
		}
		leaves = append(leaves, leaf{cond, t})
	}
	flat(recv, S.True)
	if !okAll || len(leaves) == 0 {
		return nil, false
	}
	var fns []*ssa.Function
	for _, lf := range leaves {
		fn := in.X.P.SSA.LookupMethod(in.X.ifaceTypes[lf.t.Op], c.Method.Pkg(), c.Method.Name())
		if fn == nil || !inModule(fn) || fn.Blocks == nil || in.onStack(fn) || in.depth >= in.X.Cfg.MaxDepth {
			return nil, false
		}
		if in.X.Cfg.Opaque != nil {
			if opq, _ := in.X.Cfg.Opaque(fn); opq {
				return nil, false
			}
		}
		fns = append(fns, fn)
	}
	var cases []muxCase
	var resTy TyClass = TOther
	if v != nil {
		resTy = tyClass(v.Type())
	}
	for i, lf := range leaves {
		cg := S.Canon(S.And(g, lf.cond))
		r := in.inline(fns[i], append([]*Term{lf.t.Args[0]}, args...), nil, cg, v)
		cases = append(cases, muxCase{lf.cond, r})
	}
	if len(cases) == 1 {
		return cases[0].V, true
	}
	return S.Mux(cases, resTy), true
}

func shortName(n string) string {
	if i := strings.LastIndex(n, "/"); i >= 0 {
		n = n[i+1:]
	}
	return n
}

// argsReadOnly: no argument refers to a local mutable object.
func (in *Inst) argsReadOnly(args []*Term) bool {
	for _, a := range args {
		if a.Ty != TRef && a.Ty != TOther {
			continue
		}
		bad := false
		Walk(a, map[*Term]bool{}, func(x *Term) {
			if x.K == KSym && x.Sym.Kind == SObj {
				bad = true
			}
		})
		if bad {
			return false
		}
	}
	return true
}

func (in *Inst) inline(fn *ssa.Function, args []*Term, clo *closureVal, g *Term, v ssa.Value) *Term {
	S := in.X.S
	sub := &Inst{X: in.X, Fn: fn, Args: args, vals: map[ssa.Value]*Term{}, Parent: in, depth: in.depth + 1,
		cfg: in.X.cfgOf(fn), sum: in.sum, valLoop: map[ssa.Value]*LoopS{}, callSite: v}
	if clo != nil {
		sub.Free = clo.Free
	}
	sub.region = in.region
	sub.loops = in.loops
	tex := sub.walkRegion(nil, nil, g)
	for _, d := range sub.deferEvs {
		d.Dead = true // replayed as calls at the callee's returns
	}
	for _, te := range tex {
		if te.Ev != nil && te.Ev.Kind == "panic" && len(sub.deferEvs) > 0 {
			in.X.und("%s: inlined callee %s defers and can panic (deferred calls on the panic path are not modelled)", in.Fn, fn)
		}
	}
	var cases []muxCase
	nres := fn.Signature.Results().Len()
	for _, te := range tex {
		if te.Ev.Kind != "return" {
			continue
		}
		te.Ev.Dead = true // the callee's return is not an event of the caller
		var rv *Term
		switch nres {
		case 0:
			rv = S.mkOp("tuple", TTuple)
		case 1:
			rv = te.Rets[0]
		default:
			rv = S.mkOp("tuple", TTuple, te.Rets...)
		}
		cases = append(cases, muxCase{te.Guard, rv})
	}
	if len(cases) == 0 {
		// never returns (always panics)
		in.narrow = S.False
		return S.SymTerm(in.newSym(SOpaque, "noreturn", TOther))
	}
	if len(cases) < len(tex) {
		// some paths of the callee end in panic: the caller continues under the callee's return conditions only
		ret := S.False
		for _, c := range cases {
			ret = S.Or(ret, c.G)
		}
		in.narrow = S.Canon(ret)
	}
	if nres > 1 {
		// mux component-wise to keep tuples explicit
		parts := make([]*Term, nres)
		for i := 0; i < nres; i++ {
			var cs []muxCase
			for _, c := range cases {
				cs = append(cs, muxCase{c.G, c.V.Args[i]})
			}
			parts[i] = S.Mux(cs, cs[0].V.Ty)
		}
		return S.mkOp("tuple", TTuple, parts...)
	}
	return S.Mux(cases, cases[0].V.Ty)
}

// cellsStoredByClosure lists the captured cells that the closure body (or closures it calls) may store to.
func (in *Inst) cellsStoredByClosure(clo *Term) []*Symbol {
	fn := clo.Args[0].Sym.Obj.(*ssa.Function)
	free := clo.Args[1:]
	seen := map[*Symbol]bool{}
	var out []*Symbol
	var scan func(fn *ssa.Function, free []*Term, depth int)
	scan = func(fn *ssa.Function, free []*Term, depth int) {
		res := func(v ssa.Value) *Symbol {
			if fv, ok := v.(*ssa.FreeVar); ok {
				for i, f := range fn.FreeVars {
					if f == fv && i < len(free) && free[i] != nil && isCellTerm(free[i]) {
						return free[i].Sym
					}
				}
			}
			return nil
		}
		for _, b := range fn.Blocks {
			for _, instr := range b.Instrs {
				switch t := instr.(type) {
				case *ssa.Store:
					if sy := res(t.Addr); sy != nil && !seen[sy] {
						seen[sy] = true
						out = append(out, sy)
					}
				case *ssa.MakeClosure:
					if depth < 4 {
						var fr []*Term
						for _, bnd := range t.Bindings {
							if sy := res(bnd); sy != nil {
								fr = append(fr, in.X.S.SymTerm(sy))
							} else {
								fr = append(fr, nil)
							}
						}
						scan(t.Fn.(*ssa.Function), fr, depth+1)
					}
				}
			}
		}
	}
	scan(fn, free, 0)
	return out
}

// singleInitStruct: a struct-typed local whose only write is one whole-value store and whose fields are only read.
func singleInitStruct(a *ssa.Alloc) bool {
	if _, ok := deref(a.Type()).Underlying().(*types.Struct); !ok {
		return false
	}
	refs := a.Referrers()
	if refs == nil {
		return false
	}
	stores := 0
	for _, r := range *refs {
		switch r := r.(type) {
		case *ssa.Store:
			if r.Addr != a {
				return false
			}
			stores++
		case *ssa.FieldAddr:
			if rr := r.Referrers(); rr != nil {
				for _, u := range *rr {
					switch u := u.(type) {
					case *ssa.UnOp:
					case *ssa.IndexAddr:
						_ = u
					default:
						return false
					}
				}
			}
		case *ssa.UnOp:
			// the whole value read back (passed on by value)
		case *ssa.MakeClosure:
			// captured by a closure that only reads it
			fn, ok := r.Fn.(*ssa.Function)
			if !ok {
				return false
			}
			for bi, bnd := range r.Bindings {
				if bnd != ssa.Value(a) {
					continue
				}
				if bi >= len(fn.FreeVars) || !onlyReadThrough(fn.FreeVars[bi]) {
					return false
				}
			}
		case *ssa.DebugRef:
		default:
			return false
		}
	}
	return stores == 1
}

// onlyReadThrough: every use of the pointer v is a load, or a field/element address that is itself only loaded from.
func onlyReadThrough(v ssa.Value) bool {
	refs := v.Referrers()
	if refs == nil {
		return false
	}
	for _, r := range *refs {
		switch r := r.(type) {
		case *ssa.UnOp, *ssa.DebugRef:
		case *ssa.FieldAddr:
			if !onlyReadThrough(r) {
				return false
			}
		case *ssa.IndexAddr:
			if r.X != v || !onlyReadThrough(r) {
				return false
			}
		default:
			return false
		}
	}
	return true
}

// singleInitArrayParam: the spilled copy of an array passed BY VALUE (the callee indexes it): one whole-value store of
// the parameter, elements only read. Reads go to the caller's array, which cannot change while the callee runs.
func singleInitArrayParam(a *ssa.Alloc, st *ssa.Store) bool {
	if _, ok := deref(a.Type()).Underlying().(*types.Array); !ok {
		return false
	}
	if _, isParam := st.Val.(*ssa.Parameter); !isParam {
		return false
	}
	refs := a.Referrers()
	if refs == nil {
		return false
	}
	stores := 0
	for _, r := range *refs {
		switch r := r.(type) {
		case *ssa.Store:
			if r.Addr != a {
				return false
			}
			stores++
		case *ssa.IndexAddr:
			if rr := r.Referrers(); rr != nil {
				for _, u := range *rr {
					switch u.(type) {
					case *ssa.UnOp, *ssa.DebugRef:
					default:
						return false
					}
				}
			}
		case *ssa.DebugRef:
		default:
			return false
		}
	}
	return stores == 1
}

// expandCopy turns copy(dst, src) between two different objects with scalar elements into the loop it abbreviates:
// for k := 0; k < min(len(dst), len(src)); k++ { dst[k] = src[k] }. Returns the number of elements copied, or
// nil when the call is left as an event (same object on both sides: memmove semantics; non-scalar elements).
func (in *Inst) expandCopy(c *ssa.CallCommon, args []*Term, g *Term, b *ssa.BasicBlock) *Term {
	S := in.X.S
	if len(args) != 2 {
		return nil
	}
	st, ok := c.Args[0].Type().Underlying().(*types.Slice)
	if !ok {
		return nil
	}
	if _, isStr := c.Args[1].Type().Underlying().(*types.Basic); isStr {
		return nil // copy(dst, "string")
	}
	tc := tyClass(st.Elem())
	if tc == TRef || tc == TOther || isAggregate(st.Elem()) {
		return nil
	}
	droot, doff, dlen := in.sliceParts(args[0])
	sroot, soff, slen := in.sliceParts(args[1])
	if droot == sroot {
		return nil
	}
	if dlen.Op == "len" && dlen.Args[0] == droot {
		dlen = in.lenOf(droot)
	}
	if slen.Op == "len" && slen.Args[0] == sroot {
		slen = in.lenOf(sroot)
	}
	cnt := dlen
	if dlen != slen {
		cnt = S.Op("ite", TInt, S.Cmp("<=", dlen, slen), dlen, slen)
	}
	in.X.nloop++
	ls := &LoopS{ID: in.X.nloop, Fn: in.Fn, Info: &loopInfo{Header: b, Blocks: map[*ssa.BasicBlock]bool{}}, Guard: g, Body: &Region{},
		Parent: in.curLoop(), final: map[*Symbol]*Term{}}
	if v, ok := c.Value.(*ssa.Builtin); ok {
		_ = v
	}
	ls.Pos = c.Pos()
	cur := in.region[len(in.region)-1]
	cur.Items = append(cur.Items, ls)
	ls.Iter = in.newSym(SIter, fmt.Sprintf("i%d", ls.ID), TInt)
	ls.Iter.Loop = ls
	ls.IterEnd = in.newSym(SIterEnd, fmt.Sprintf("iend%d", ls.ID), TInt)
	ls.IterEnd.Loop = ls.Parent
	it := S.SymTerm(ls.Iter)
	cont := S.Cmp("<", it, cnt)
	ls.Cont = S.Canon(cont)
	ls.Exits = []*Exit{{Guard: S.Canon(S.Not(cont)), From: b, Target: b, AtHead: true}}
	if v, ok := cnt.IntVal(); ok {
		if v < 0 {
			v = 0
		}
		ls.Trip = S.Int(v)
	} else {
		ls.Trip = S.Op("max0", TInt, cnt)
	}
	ls.Bound = ls.Trip
	ls.final[ls.Iter] = ls.Trip
	in.loops = append(in.loops, ls)
	in.region = append(in.region, ls.Body)
	val := in.loadScalar(sroot, []*Term{S.Add(soff, it)}, tc, ls.Cont, nil)
	in.emit(&Event{Kind: "store", Guard: ls.Cont, Root: droot, Path: []*Term{S.Add(doff, it)}, Val: val, Pos: c.Pos()})
	in.region = in.region[:len(in.region)-1]
	in.loops = in.loops[:len(in.loops)-1]
	return ls.Trip
}

var retParamMemo = map[*ssa.Function]int{}

// returnsParamIndex: the index k such that every return of fn returns its k-th parameter unchanged (receiver
// included, as in the SSA call's argument list), or -1.
func returnsParamIndex(fn *ssa.Function) int {
	if k, ok := retParamMemo[fn]; ok {
		return k
	}
	k := -1
	ok := fn.Blocks != nil && fn.Signature.Results().Len() == 1
	for _, b := range fn.Blocks {
		for _, in := range b.Instrs {
			r, isRet := in.(*ssa.Return)
			if !isRet || !ok {
				continue
			}
			p, isParam := r.Results[0].(*ssa.Parameter)
			if !isParam {
				// a parameter spilled because a closure captures it, never reassigned
				p = spilledParam(r.Results[0])
				isParam = p != nil
			}
			if !isParam {
				ok = false
				continue
			}
			idx := -1
			for i, q := range fn.Params {
				if q == p {
					idx = i
				}
			}
			if idx < 0 || (k >= 0 && k != idx) {
				ok = false
				continue
			}
			k = idx
		}
	}
	if !ok {
		k = -1
	}
	retParamMemo[fn] = k
	return k
}

// spilledParam: v is a load of a local cell whose only store is the entry store of a parameter (no reassignment,
// neither here nor through the closures that capture the cell).
func spilledParam(v ssa.Value) *ssa.Parameter {
	u, ok := v.(*ssa.UnOp)
	if !ok {
		return nil
	}
	a, ok := u.X.(*ssa.Alloc)
	if !ok || a.Referrers() == nil {
		return nil
	}
	var p *ssa.Parameter
	for _, r := range *a.Referrers() {
		switch r := r.(type) {
		case *ssa.Store:
			if r.Addr != ssa.Value(a) {
				return nil
			}
			q, isP := r.Val.(*ssa.Parameter)
			if !isP || p != nil {
				return nil
			}
			p = q
		case *ssa.UnOp, *ssa.DebugRef:
		case *ssa.MakeClosure:
			fn, isFn := r.Fn.(*ssa.Function)
			if !isFn {
				return nil
			}
			for bi, bnd := range r.Bindings {
				if bnd != ssa.Value(a) || bi >= len(fn.FreeVars) {
					continue
				}
				if fr := fn.FreeVars[bi].Referrers(); fr != nil {
					for _, x := range *fr {
						if st, isSt := x.(*ssa.Store); isSt && st.Addr == ssa.Value(fn.FreeVars[bi]) {
							return nil
						}
						if _, isMC := x.(*ssa.MakeClosure); isMC {
							return nil
						}
					}
				}
			}
		default:
			return nil
		}
	}
	return p
}

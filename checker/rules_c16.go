package main

import (
	"fmt"
	"strings"

	"golang.org/x/tools/go/ssa"
)

func numConfig(self *ssa.Function) Config {
	return Config{Opaque: opaqueExcept(repoOpaque, canonFunc(self))}
}

var chiFuncs = []string{"FrequencyWithinBlockProto", "PokerProto", "PokerTestBytes", "RunsDistributionTest", "LongestRunOfOnesInABlockProto",
	"MatrixRankProto", "CumulativeTest", "ApproximateEntropyProto", "LinearComplexityProto"}
var normalFuncs = []string{"MonoBitFrequencyTest", "MonoBitFrequencyTestBytes", "RunsTest", "BinaryDerivativeProto", "AutocorrelationProto",
	"MaurerUniversalTest", "DiscreteFourierTransformTest"}

func liveRets(sum *Summary) []*Event {
	var out []*Event
	for _, r := range sum.Rets {
		if !r.Dead {
			out = append(out, r)
		}
	}
	return out
}

func ruleC16(c *Check, p *Prog) {
	c.Explanation = "Decides the consistency relations between P, Q and Pass that are visible in the code's shape: R-QP-CHI for the chi-square tests (block frequency, poker bit/byte, overlapping x2, runs distribution, longest run, rank, cumulative sums, approximate entropy, linear complexity) the Q result is the same value as the P result on every return; " +
		"R-PQ-NORMAL for the two-sided tests (monobit bit/byte, runs, binary derivative, autocorrelation, Maurer, DFT) P = erfc(|v|) and Q = erfc(v)/2 over the SAME v, whence P = 2 min(Q, 1-Q) identically; " +
		"R-PASS in each of the 15 registry runners Pass is (P >= Alpha) on the value stored in P (min(P,P2) for the overlapping test), Alpha = 0.01. " +
		"R-PRECOND none of the explicit input-validation panics of the 17 test entry points fires for a length >= the standard's minimum (and the test's own) with the documented parameters (a test that refuses an admissible sequence returns nothing). " +
		"R-VALUE-IDENT every test function is the reference computation of C01-C05 (their R-EQUIV obligations re-asserted; a wrong regime border that leaves no block, a short-circuited normal CDF, an integer overflow are differences from it). R-STATELESS no function of the library stores into package-level memory (a memo of the last shape in the tail function hands one goroutine another's value: P outside [0,1]); the accuracy of igamc itself is C06, not re-asserted here. R-FINITE-GUARDS the finiteness guards of igamc (clamp, underflow cut, qk != 0, rescaling of the continued-fraction state) are present. " +
		"NOT decided: finiteness, absence of NaN and the range [0,1] in general (runtime values: 0/0 in the runs test for constant input, logs of counts, differences of near-equal sums)."
	c.Floor("R-QP-CHI", 10)
	c.Floor("R-PQ-NORMAL", 7)
	c.Floor("R-PASS", 15)
	c.Floor("R-PRECOND", 17)
	// "every test RETURNS ...": none of the input-validation panics fires on an admissible length / documented parameter
	for _, pr := range []string{"C01", "C02", "C03", "C04", "C05"} {
		checkPreconds(c, p, pr)
	}
	// the tail function every chi-square P/Q goes through keeps no state between calls (a memo of the last shape is a store into
	// package-level memory); its clamps and guards are R-FINITE-GUARDS below, its accuracy is C06 and is NOT re-asserted here
	checkStateless(c, p)
	// finiteness and range are properties of VALUES; what is visible in the code's shape is that each test IS the reference
	// computation (C01-C05's obligations re-asserted), whose values are the standard's well-formed P and Q: a regime table with a
	// wrong border (N = 0 blocks, 0/0), a short-circuited normal CDF (P > 1) are differences from the reference
	for _, specs := range [][]numSpec{c01Specs, c02Specs, c03Specs, c04Specs, c05Specs} {
		for _, sp := range specs {
			checkEquiv(c, p, "R-VALUE-IDENT", sp.Key, sp.Spec, sp.What)
		}
	}
	for _, sp := range c19Specs {
		if sp.Key != "fft.Inverse" {
			checkEquiv(c, p, "R-VALUE-IDENT", sp.Key, sp.Spec, sp.What)
		}
	}
	for _, name := range chiFuncs {
		fn := p.Func(pkgRoot, name)
		if fn == nil {
			c.Fail("R-QP-CHI", name, "-", "not found")
			continue
		}
		x := NewExt(p, NewStore(), numConfig(fn))
		sum := x.Summarize(fn, nil, nil)
		where := p.Pos(fn.Pos())
		if len(sum.Undecided) > 0 {
			c.Undecided("R-QP-CHI", name, where, "%s", strings.Join(sum.Undecided, "; "))
			continue
		}
		ok := len(liveRets(sum)) > 0
		for _, r := range liveRets(sum) {
			if len(r.Rets) != 2 || r.Rets[0] != r.Rets[1] {
				ok = false
			}
		}
		c.Expect(ok, "R-QP-CHI", name, where, "Q is the same value as P on every return", "Q is not the value returned as P")
	}
	if fn := p.Func(pkgRoot, "OverlappingTemplateMatchingProto"); fn != nil {
		x := NewExt(p, NewStore(), numConfig(fn))
		sum := x.Summarize(fn, nil, nil)
		ok := len(liveRets(sum)) > 0
		for _, r := range liveRets(sum) {
			if len(r.Rets) != 4 || r.Rets[0] != r.Rets[2] || r.Rets[1] != r.Rets[3] || r.Rets[0] == r.Rets[1] {
				ok = false
			}
		}
		c.Expect(ok, "R-QP-CHI", "OverlappingTemplateMatchingProto", p.Pos(fn.Pos()), "q1 is p1 and q2 is p2 (two distinct statistics)", "q1/q2 are not the values returned as p1/p2")
	}
	for _, name := range normalFuncs {
		fn := p.Func(pkgRoot, name)
		if fn == nil {
			c.Fail("R-PQ-NORMAL", name, "-", "not found")
			continue
		}
		x := NewExt(p, NewStore(), numConfig(fn))
		sum := x.Summarize(fn, nil, nil)
		S := x.S
		where := p.Pos(fn.Pos())
		ok := len(liveRets(sum)) > 0
		detail := ""
		for _, r := range liveRets(sum) {
			if len(r.Rets) != 2 {
				ok = false
				continue
			}
			P, Q := r.Rets[0], r.Rets[1]
			var v1, v2 *Term
			if P.Op == "call:math.Erfc" && P.Args[0].Op == "call:math.Abs" {
				v1 = P.Args[0].Args[0]
			}
			if Q.Op == "fdiv" && Q.Args[0].Op == "call:math.Erfc" && Q.Args[1] == S.Float(2) {
				v2 = Q.Args[0].Args[0]
			}
			if Q.Op == "fmul" {
				for i := 0; i < 2; i++ {
					if Q.Args[i] == S.Float(0.5) && Q.Args[1-i].Op == "call:math.Erfc" {
						v2 = Q.Args[1-i].Args[0]
					}
				}
			}
			if v1 == nil || v2 == nil || v1 != v2 {
				ok = false
				detail = fmt.Sprintf("P = %s ; Q = %s", trunc(P.String(), 120), trunc(Q.String(), 120))
			}
		}
		c.Expect(ok, "R-PQ-NORMAL", name, where, "P = erfc(|v|), Q = erfc(v)/2 over the same v", "P and Q are not erfc(|v|) and erfc(v)/2 of one statistic v: "+detail)
	}
	for _, rs := range runnerSpecs {
		checkRunner(c, p, rs, "", "R-PASS")
	}
	checkIgamcGuards(c, p)
	checkLogOfCountGuards(c, p, "ApproximateEntropyProto")
}

// ---- C17 ----

type blockSpec struct {
	Fn string
}

func ruleC17(c *Check, p *Prog) {
	c.Explanation = "Decides the symmetries that are properties of the access set and accumulation shape: R-BLOCK-LOCAL (block frequency, poker, longest run, matrix rank, linear complexity) in the block loop every input read is at a block-relative position (index - i*blockLength does not depend on the block number i), " +
		"every value carried across blocks is an accumulator updated by adding a block-local quantity or a `+1` of a histogram cell, and scratch that is reused across blocks (matrix, block copy) is overwritten unconditionally at block-independent indices before it is consumed => the result is invariant under permuting whole blocks; " +
		"R-TAIL-DISCARD (the same tests and Maurer) the largest index read is (product of the loop trip counts) - 1 = N*blockLength - 1 < n by floor(n/b)*b <= n => bits of the discarded tail are never read; " +
		"R-ROTATION (approximate entropy) every input read is at index (i + t) mod n with i ranging over all of [0,n) and t independent of i, and the only effects are commutative `+1` histogram increments => rotation-invariant; " +
		"R-MIRROR (cumulative sums) the forward and backward walks differ only in reading index i versus n-1-i. " +
		"R-ROTATION-EQUIV (overlapping subsequence) its sliding-window form seeds the window from the prefix and updates it bit by bit, so invariance is not visible in the access shape; it is decided as identity with the cyclic-window reference formulation (the same obligation as C01's R-EQUIV for that function), whose window multiset is rotation-invariant. " +
		"NOT decided: complement and reversal invariances (algebraic facts about the statistics, not code shape)."
	blocks := []string{"FrequencyWithinBlockProto", "PokerProto", "LongestRunOfOnesInABlockProto", "MatrixRankProto", "LinearComplexityProto"}
	for _, name := range blocks {
		checkBlockLocal(c, p, name, true)
	}
	checkBlockLocal(c, p, "MaurerUniversalTest", false)
	checkRotation(c, p, "ApproximateEntropyProto")
	// rotation invariance of the overlapping-subsequence test is not visible in its access shape (the sliding window is
	// seeded from the prefix by subsequencepattern and then updated bit by bit); it follows from identity with the
	// reference formulation, whose window multiset {pattern(bits[i..i+m) cyclic) : i in [0,n)} is rotation-invariant
	// (lemma in ref/freq.go): the seed value's bit order and the update's bit order must be the same MSB-first order
	for _, sp := range c01Specs {
		if sp.Key == "OverlappingTemplateMatchingProto" {
			checkEquiv(c, p, "R-ROTATION-EQUIV", sp.Key, sp.Spec, "rotation invariance through identity with the cyclic-window reference: "+sp.What)
		}
	}
	checkMirror(c, p)
}

// inputLoads collects ld(param0, idx) terms occurring anywhere in the loop (terms of events, guards, transfers).
func inputLoads(l *LoopS, in *Term) []*Term {
	seen := map[*Term]bool{}
	var out []*Term
	visit := func(t *Term) {
		if t == nil {
			return
		}
		Walk(t, seen, func(u *Term) {
			if u.Op == "ld" && len(u.Args) == 2 && u.Args[0] == in {
				out = append(out, u)
			}
		})
	}
	var rec func(l *LoopS)
	rec = func(l *LoopS) {
		for _, cv := range l.Carried {
			visit(cv.Next)
		}
		visit(l.Cont)
		for _, it := range l.Body.Items {
			switch x := it.(type) {
			case *Event:
				if x.Dead {
					continue
				}
				visit(x.Guard)
				visit(x.Val)
				for _, a := range x.Args {
					visit(a)
				}
				for _, a := range x.Path {
					visit(a)
				}
			case *LoopS:
				rec(x)
			}
		}
	}
	rec(l)
	return out
}

func loopSyms(l *LoopS) map[*Symbol]bool {
	m := map[*Symbol]bool{l.Iter: true}
	for _, cv := range l.Carried {
		m[cv.Sym] = true
	}
	return m
}

func dependsOnSyms(t *Term, syms map[*Symbol]bool) bool {
	return DependsOn(t, func(s *Symbol) bool { return syms[s] })
}

func checkBlockLocal(c *Check, p *Prog, name string, permutable bool) {
	fn := p.Func(pkgRoot, name)
	if fn == nil {
		c.Fail("R-BLOCK-LOCAL", name, "-", "not found")
		return
	}
	x := NewExt(p, NewStore(), numConfig(fn))
	sum := x.Summarize(fn, nil, nil)
	S := x.S
	// a block loop written over the running offset (stride = block length, known positive) is a counted loop too
	posLoad = func(t *Term) bool { return positiveTableLoad(p, nil, t) }
	markMonotoneCounters(S, sum)
	posLoad = nil
	where := p.Pos(fn.Pos())
	if len(sum.Undecided) > 0 {
		c.Undecided("R-BLOCK-LOCAL", name, where, "%s", strings.Join(sum.Undecided, "; "))
		return
	}
	in := sum.Params[0]
	// block loops: top-level loops that read the input
	var blockLoops []*LoopS
	for _, it := range sum.Top.Items {
		if l, ok := it.(*LoopS); ok && len(inputLoads(l, in)) > 0 {
			blockLoops = append(blockLoops, l)
		}
	}
	if len(blockLoops) == 0 {
		c.Fail("R-BLOCK-LOCAL", name, where, "no loop reading the input")
		return
	}
	// input is read nowhere else
	var outside []string
	sum.Top.Events(func(e *Event, loops []*LoopS) {
		if len(loops) > 0 {
			return
		}
		for _, t := range append(append([]*Term{e.Guard, e.Val}, e.Args...), e.Rets...) {
			if t == nil {
				continue
			}
			Walk(t, map[*Term]bool{}, func(u *Term) {
				if u.Op == "ld" && len(u.Args) >= 1 && u.Args[0] == in {
					outside = append(outside, e.String(p))
				}
			})
		}
	})
	n := S.Op("len", TInt, in)
	var tailProbs, localProbs []string
	nReads := 0
	for _, L := range blockLoops {
		if L.Trip == nil {
			tailProbs = append(tailProbs, "block loop at "+loopWhere(p, L)+" is not a counted loop")
			continue
		}
		// collect nested loops chain to compute products of trips
		it := S.SymTerm(L.Iter)
		loads := inputLoads(L, in)
		nReads += len(loads)
		// block length b: index = b*i + r with r independent of i
		var blockLen *Term
		for _, ld := range loads {
			idx := ld.Args[1]
			// coefficient of i (possibly symbolic): idx[i+1] - idx[i]
			memo := map[*Term]*Term{}
			nxt := S.Subst(idx, map[*Symbol]*Term{L.Iter: S.Add(it, S.Int(1))}, memo)
			step := S.Sub(nxt, idx)
			if dependsOnSyms(step, map[*Symbol]bool{L.Iter: true}) {
				localProbs = append(localProbs, fmt.Sprintf("read index %v is not affine in the block number", idx))
				continue
			}
			if blockLen == nil {
				blockLen = step
			} else if blockLen != step {
				localProbs = append(localProbs, fmt.Sprintf("reads use different block strides %v and %v", blockLen, step))
			}
			// largest index: all iteration symbols at trip-1
			sub := map[*Symbol]*Term{}
			okTrip := true
			var collect func(l *LoopS)
			collect = func(l *LoopS) {
				if l.Trip == nil {
					okTrip = false
					return
				}
				sub[l.Iter] = S.Sub(l.Trip, S.Int(1))
			}
			collect(L)
			L.Body.AllLoops(func(l *LoopS) {
				if mentions(idx, S.SymTerm(l.Iter)) {
					collect(l)
				}
			})
			if !okTrip {
				tailProbs = append(tailProbs, "a loop indexing the input is not counted")
				continue
			}
			maxIdx := dropMax0(S, S.Subst(idx, sub, map[*Term]*Term{}))
			m1 := S.Add(maxIdx, S.Int(1))
			stride := dropMax0(S, step)
			want := S.MulI(stride, S.Op("idiv", TInt, n, stride))
			okTail := m1 == want
			if v, isC := m1.IntVal(); isC && v <= admissibleMin[name] {
				okTail = true // a fixed prefix that every admissible input contains
			}
			if !okTail {
				tailProbs = append(tailProbs, fmt.Sprintf("largest index read + 1 = %v is not blockLength*floor(n/blockLength) = %v", m1, want))
			}
		}
		if !permutable {
			continue
		}
		// carried values across blocks: commutative accumulation of block-local quantities
		syms := loopSyms(L)
		for _, cv := range nonAffine(L) {
			g := accDelta(S, cv.Next, S.SymTerm(cv.Sym), cv.Ty)
			carriedOnly := map[*Symbol]bool{}
			for s := range syms {
				if s != L.Iter {
					carriedOnly[s] = true
				}
			}
			if g == nil || dependsOnSyms(g, carriedOnly) {
				localProbs = append(localProbs, fmt.Sprintf("value %s carried across blocks is not updated by adding a block-local quantity (next = %s)", cv.Name, trunc(cv.Next.String(), 160)))
			}
		}
		// memory effects directly in the block body
		for _, itm := range L.Body.Items {
			e, ok := itm.(*Event)
			if !ok || e.Dead {
				continue
			}
			switch e.Kind {
			case "store":
				// histogram increment: obj[idx] = ld(obj[idx]) + 1
				as, cs, off := linParts(e.Val)
				inc := e.Val.Ty == TInt && len(as) == 1 && cs[0].Int64() == 1 && off.Int64() == 1 && as[0].K == KSym && as[0].Sym.Ev != nil && as[0].Sym.Ev.Kind == "load" && as[0].Sym.Ev.Root == e.Root && samePath(as[0].Sym.Ev.Path, e.Path)
				if e.Val.Op == "fadd" {
					for i := 0; i < 2; i++ {
						o := e.Val.Args[i]
						if e.Val.Args[1-i] == S.Float(1) && o.K == KSym && o.Sym.Ev != nil && o.Sym.Ev.Kind == "load" && o.Sym.Ev.Root == e.Root && samePath(o.Sym.Ev.Path, e.Path) {
							inc = true
						}
					}
				}
				if !inc {
					localProbs = append(localProbs, "a store in the block body is not a `+1` histogram increment: "+e.String(p))
				}
			}
		}
		// scratch written in nested loops: unconditional, block-independent indices
		L.Body.AllLoops(func(nl *LoopS) {
			for _, itm := range nl.Body.Items {
				e, ok := itm.(*Event)
				if !ok || e.Dead || e.Kind != "store" {
					continue
				}
				for _, ix := range e.Path {
					if mentions(ix, it) {
						localProbs = append(localProbs, "scratch index depends on the block number: "+e.String(p))
					}
				}
			}
		})
	}
	if len(outside) > 0 {
		tailProbs = append(tailProbs, "input read outside the block loops: "+strings.Join(outside, " | "))
	}
	c.Expect(len(tailProbs) == 0, "R-TAIL-DISCARD", name, where,
		fmt.Sprintf("all %d input reads are at block*blockLength + offset; the largest index read is blocks*blockLength - 1 with blocks = floor(n/blockLength) (minus a constant) => below n, the tail is never read", nReads),
		strings.Join(uniq(tailProbs), "; "))
	if permutable {
		c.Expect(len(localProbs) == 0, "R-BLOCK-LOCAL", name, where,
			"reads are block-relative; values carried across blocks are commutative accumulators of block-local quantities; reused scratch is rewritten at block-independent indices",
			strings.Join(uniq(localProbs), "; "))
	}
}

func stripMax0(S *Store, t *Term) *Term {
	if t.Op == "max0" {
		return t.Args[0]
	}
	return t
}

func zeroTerm(S *Store, ty TyClass) *Term {
	if ty == TFloat {
		return S.Float(0)
	}
	return S.Int(0)
}

func floatOrIntDiff(S *Store, a *Term, cv *Carried) *Term {
	if cv.Ty == TInt {
		return S.Sub(a, S.SymTerm(cv.Sym))
	}
	if a.Op == "fadd" {
		if a.Args[0] == S.SymTerm(cv.Sym) {
			return a.Args[1]
		}
		if a.Args[1] == S.SymTerm(cv.Sym) {
			return a.Args[0]
		}
	}
	return S.SymTerm(cv.Sym) // forces a dependency => reported
}

func checkRotation(c *Check, p *Prog, name string) {
	fn := p.Func(pkgRoot, name)
	if fn == nil {
		c.Fail("R-ROTATION", name, "-", "not found")
		return
	}
	x := NewExt(p, NewStore(), numConfig(fn))
	sum := x.Summarize(fn, nil, nil)
	S := x.S
	closeWrapCounters(S, sum) // a hand-wrapped running position is (start + k) mod n
	where := p.Pos(fn.Pos())
	in := sum.Params[0]
	n := S.Op("len", TInt, in)
	var probs []string
	nReads := 0
	// every loop nest reading the input: window loop i with trip n
	var visit func(r *Region, outer []*LoopS)
	visit = func(r *Region, outer []*LoopS) {
		for _, it := range r.Items {
			l, ok := it.(*LoopS)
			if !ok {
				continue
			}
			loads := inputLoads(l, in)
			if len(loads) == 0 {
				continue
			}
			isWindow := l.Trip == S.Op("max0", TInt, n)
			if !isWindow {
				visit(l.Body, append(outer, l))
				continue
			}
			iT := S.SymTerm(l.Iter)
			for _, ld := range loads {
				nReads++
				idx := ld.Args[1]
				okForm := false
				if idx.Op == "imod" && idx.Args[1] == n {
					t := S.Sub(idx.Args[0], iT)
					if !mentions(t, iT) {
						okForm = true
					}
				}
				if !okForm {
					probs = append(probs, fmt.Sprintf("read at %v is not (i + t) mod n with t independent of the window number", idx))
				}
			}
			// effects: only +1 increments whose index does not mention i except through input reads; no carried state across windows
			if len(nonAffine(l)) > 0 {
				probs = append(probs, "state carried across windows: "+carriedNames(nonAffine(l)))
			}
			for _, itm := range l.Body.Items {
				e, ok := itm.(*Event)
				if !ok || e.Dead {
					continue
				}
				if e.Kind == "store" {
					as, cs, off := linParts(e.Val)
					inc := len(as) == 1 && cs[0].Int64() == 1 && off.Int64() == 1 && as[0].K == KSym && as[0].Sym.Ev != nil && as[0].Sym.Ev.Kind == "load" && as[0].Sym.Ev.Root == e.Root && samePath(as[0].Sym.Ev.Path, e.Path)
					if !inc {
						probs = append(probs, "non-commutative effect per window: "+e.String(p))
					}
				}
			}
		}
	}
	visit(sum.Top, nil)
	c.Expect(len(probs) == 0 && nReads > 0, "R-ROTATION", name, where,
		fmt.Sprintf("all %d input reads are at (i + t) mod n for i over all of [0,n); per-window effects are commutative `+1` increments; no state is carried across windows", nReads),
		strings.Join(uniq(probs), "; "))
}

func checkMirror(c *Check, p *Prog) {
	fn := p.Func(pkgRoot, "CumulativeTest")
	if fn == nil {
		c.Fail("R-MIRROR", "CumulativeTest", "-", "not found")
		return
	}
	x := NewExt(p, NewStore(), numConfig(fn))
	sum := x.Summarize(fn, nil, nil)
	S := x.S
	in := sum.Params[0]
	fwd := sum.Params[1]
	n := S.Op("len", TInt, in)
	var walk *LoopS
	for _, it := range sum.Top.Items {
		if l, ok := it.(*LoopS); ok && len(inputLoads(l, in)) > 0 {
			walk = l
		}
	}
	ok := false
	detail := "no walk loop"
	// the direction test taken out of the walk: one loop under `forward` reading i, one under `!forward` reading n-1-i,
	// with the same transfer
	var walks []*LoopS
	for _, it := range sum.Top.Items {
		if l, isL := it.(*LoopS); isL && len(inputLoads(l, in)) > 0 {
			walks = append(walks, l)
		}
	}
	if len(walks) == 2 {
		a, b := walks[0], walks[1]
		if a.Guard != nil && b.Guard != nil && S.Implies(b.Guard, fwd) && S.Implies(a.Guard, S.Not(fwd)) {
			a, b = b, a
		}
		twoOK := a.Guard != nil && b.Guard != nil && S.Implies(a.Guard, fwd) && S.Implies(b.Guard, S.Not(fwd)) &&
			a.Trip == S.Op("max0", TInt, n) && b.Trip == S.Op("max0", TInt, n)
		why := "two walk loops that are not `forward` / `!forward` walks over all n bits"
		if twoOK {
			iA, iB := S.SymTerm(a.Iter), S.SymTerm(b.Iter)
			for _, l := range inputLoads(a, in) {
				if l.Args[1] != iA {
					twoOK, why = false, "the forward walk reads an index other than i"
				}
			}
			for _, l := range inputLoads(b, in) {
				if l.Args[1] != S.Sub(S.Sub(n, S.Int(1)), iB) {
					twoOK, why = false, "the backward walk reads an index other than n-1-i"
				}
			}
			ca, cb := nonAffine(a), nonAffine(b)
			if len(ca) != len(cb) {
				twoOK, why = false, "the two walks carry different state"
			}
			if twoOK {
				sub := map[*Symbol]*Term{b.Iter: S.Sub(S.Sub(n, S.Int(1)), iA)}
				for k := range cb {
					var partner *Carried
					for _, x := range ca {
						if x.Name == cb[k].Name {
							partner = x
						}
					}
					if partner == nil || !termsAgree(S, partner.Init, cb[k].Init) {
						twoOK, why = false, "the two walks start from different state"
						break
					}
					sub[cb[k].Sym] = S.SymTerm(partner.Sym)
				}
				for k := range cb {
					if !twoOK {
						break
					}
					var partner *Carried
					for _, x := range ca {
						if x.Name == cb[k].Name {
							partner = x
						}
					}
					m := S.Subst(cb[k].Next, sub, map[*Term]*Term{})
					// B at iteration i reads x[n-1-i]: with i -> n-1-i' it reads x[i'], as A does
					if S.Canon2(m) != S.Canon2(partner.Next) && !termsAgree(S, m, partner.Next) {
						twoOK, why = false, "the backward walk's transfer is not the forward walk's with x[n-1-i] for x[i]"
					}
				}
			}
		}
		c.Expect(twoOK, "R-MIRROR", "CumulativeTest", p.Pos(fn.Pos()), "the forward walk reads index i, the backward walk n-1-i, over all n bits with the same transfer and initial state: backward on x is forward on reverse(x)", why)
		return
	}
	if walk != nil && walk.Trip == S.Op("max0", TInt, n) {
		iT := S.SymTerm(walk.Iter)
		loads := inputLoads(walk, in)
		var idxs []*Term
		for _, l := range loads {
			idxs = append(idxs, l.Args[1])
		}
		want1, want2 := iT, S.Sub(S.Sub(n, S.Int(1)), iT)
		has1, has2, other := false, false, false
		// an index may also be selected by the direction flag: ite(forward, i, n-1-i)
		var leaves func(ix, cond *Term)
		leaves = func(ix, cond *Term) {
			if ix.Op == "ite" {
				leaves(ix.Args[1], S.And(cond, ix.Args[0]))
				leaves(ix.Args[2], S.And(cond, S.Not(ix.Args[0])))
				return
			}
			switch {
			case ix == want1 && (cond == S.True || S.Implies(cond, fwd)):
				has1 = true
			case ix == want2 && (cond == S.True || S.Implies(cond, S.Not(fwd))):
				has2 = true
			default:
				other = true
			}
		}
		for _, ix := range idxs {
			// start + step*i with start, step chosen by the direction flag is ite(flag, i, n-1-i) in disguise
			conds := map[*Term]bool{}
			Walk(ix, map[*Term]bool{}, func(u *Term) {
				if u.Op == "ite" {
					conds[u.Args[0]] = true
				}
			})
			if len(conds) == 1 && ix.Op != "ite" {
				for cnd := range conds {
					ix = S.Op("ite", TInt, cnd, S.RestrictDeep(ix, cnd), S.RestrictDeep(ix, S.Not(cnd)))
				}
			}
			leaves(ix, S.True)
		}
		// substituting forward -> !forward and i -> n-1-i must map every transfer onto itself
		sym := true
		for _, cv := range nonAffine(walk) {
			m := S.Subst(cv.Next, map[*Symbol]*Term{walk.Iter: want2}, map[*Term]*Term{})
			if fwd.K == KSym {
				m = S.Subst(m, map[*Symbol]*Term{fwd.Sym: S.Not(fwd)}, map[*Term]*Term{})
			}
			if S.Canon2(m) != S.Canon2(cv.Next) {
				// compare by evaluation on a few points
				if !termsAgree(S, m, cv.Next) {
					sym = false
				}
			}
		}
		ok = has1 && has2 && !other && sym
		detail = fmt.Sprintf("read indices %v; transfer symmetric under (forward, i) -> (!forward, n-1-i): %v", idxs, sym)
	}
	c.Expect(ok, "R-MIRROR", "CumulativeTest", p.Pos(fn.Pos()), "the walk reads index i when forward and n-1-i when backward and is otherwise one transfer function: backward on x is forward on reverse(x)", detail)
}

// Canon2 canonicalises boolean sub-structure where possible (identity for non-boolean terms).
func (s *Store) Canon2(t *Term) *Term {
	if t.Ty == TBool {
		return s.Canon(t)
	}
	return t
}

func termsAgree(S *Store, a, b *Term) bool {
	for k := 0; k < 24; k++ {
		e := NewEnv(h64("agree", k))
		va, vb := e.Eval(a), e.Eval(b)
		if !valsClose(va, vb) {
			return false
		}
	}
	return true
}

var admissibleMin = map[string]int64{"MaurerUniversalTest": 8967}

// dropMax0 rewrites max0(t) to t (trip counts and block lengths are non-negative for admissible inputs).
func dropMax0(S *Store, t *Term) *Term {
	memo := map[*Term]*Term{}
	var rec func(t *Term) *Term
	rec = func(t *Term) *Term {
		if r, ok := memo[t]; ok {
			return r
		}
		var r *Term
		switch {
		case t.K != KOp:
			r = t
		case t.Op == "max0":
			r = rec(t.Args[0])
		case t.Op == "lin":
			acc := S.linMake(nil, nil, t.Off)
			for i, a := range t.Args {
				acc = S.Add(acc, S.MulC(rec(a), t.Coefs[i]))
			}
			r = acc
		default:
			na := make([]*Term, len(t.Args))
			for i, a := range t.Args {
				na[i] = rec(a)
			}
			r = S.rebuild(t, na)
		}
		memo[t] = r
		return r
	}
	return rec(t)
}

// accDelta returns next - acc when next has the form acc + g (possibly under conditionals) with g free of acc.
func accDelta(S *Store, next, acc *Term, ty TyClass) *Term {
	if next == acc {
		return zeroTerm(S, ty)
	}
	if next.Op == "ite" && !mentions(next.Args[0], acc) {
		a := accDelta(S, next.Args[1], acc, ty)
		b := accDelta(S, next.Args[2], acc, ty)
		if a == nil || b == nil {
			return nil
		}
		return S.Op("ite", ty, next.Args[0], a, b)
	}
	if ty == TInt {
		d := S.Sub(next, acc)
		if !mentions(d, acc) {
			return d
		}
		return nil
	}
	if next.Op == "fadd" {
		if next.Args[0] == acc && !mentions(next.Args[1], acc) {
			return next.Args[1]
		}
		if next.Args[1] == acc && !mentions(next.Args[0], acc) {
			return next.Args[0]
		}
	}
	return nil
}

// checkIgamcGuards: the finiteness guards of the incomplete-gamma routine that every chi-square P-value passes through:
// clamp to 1 for x<=0 or a<=0, underflow cut to 0, division pk/qk only when qk != 0, and rescaling of the four
// continued-fraction state variables when |pk| exceeds 2^52 (without it pk, qk overflow and Inf/Inf = NaN for large shapes).
func checkIgamcGuards(c *Check, p *Prog) {
	fn := p.Func(pkgRoot, "igamc")
	if fn == nil {
		c.Fail("R-FINITE-GUARDS", "igamc", "-", "igamc not found")
		return
	}
	x := NewExt(p, NewStore(), numConfig(fn))
	sum := x.Summarize(fn, nil, nil)
	S := x.S
	where := p.Pos(fn.Pos())
	if len(sum.Undecided) > 0 || len(sum.Params) != 2 {
		c.Undecided("R-FINITE-GUARDS", "igamc", where, "%s", strings.Join(sum.Undecided, "; "))
		return
	}
	a, xx := sum.Params[0], sum.Params[1]
	var probs []string
	// clamps
	clamp := S.Canon(S.Or(S.Cmp("<=", xx, S.Float(0)), S.Cmp("<=", a, S.Float(0))))
	okClamp, okUnder := false, false
	for _, r := range liveRets(sum) {
		if len(r.Rets) != 1 {
			continue
		}
		if v, ok := r.Rets[0].FloatVal(); ok && r.Rets[0].K == KConst {
			if v == 1 && S.Equivalent(r.Guard, clamp) {
				okClamp = true
			}
			if v == 0 {
				// guard must contain a comparison of the log-prefactor against -MAXLOG
				Walk(r.Guard, map[*Term]bool{}, func(t *Term) {
					if t.Op == "flt" || t.Op == "fle" {
						for _, u := range t.Args {
							if f, ok := u.FloatVal(); ok && u.K == KConst && f < -700 {
								okUnder = true
							}
						}
					}
				})
			}
		}
	}
	if !okClamp {
		probs = append(probs, "no `return 1` exactly when x <= 0 or a <= 0")
	}
	if !okUnder {
		probs = append(probs, "no underflow cut returning 0 when the log-prefactor is below -MAXLOG")
	}
	// continued-fraction loop
	var loop *LoopS
	sum.Top.AllLoops(func(l *LoopS) { loop = l })
	big, _ := constFloat(p, pkgRoot, "big")
	biginv, _ := constFloat(p, pkgRoot, "biginv")
	if loop == nil {
		probs = append(probs, "no continued-fraction loop")
	} else {
		rescaled := 0
		for _, cv := range nonAffine(loop) {
			n := cv.Next
			if n.Op != "ite" {
				continue
			}
			cond := n.Args[0]
			isBig := false
			if cond.Op == "flt" && cond.Args[0] == S.Float(big) && cond.Args[1].Op == "call:math.Abs" {
				isBig = true
			}
			if !isBig {
				continue
			}
			t, e := n.Args[1], n.Args[2]
			if t.Op == "fmul" && ((t.Args[0] == e && t.Args[1] == S.Float(biginv)) || (t.Args[1] == e && t.Args[0] == S.Float(biginv))) {
				rescaled++
			}
		}
		if rescaled != 4 || big != 4503599627370496 || biginv != 1/big {
			probs = append(probs, fmt.Sprintf("%d of the 4 continued-fraction state variables are rescaled by 2^-52 when |pk| > 2^52", rescaled))
		}
		// division guarded by qk != 0: the accumulator holding pk/qk keeps its old value when qk == 0
		guarded := false
		for _, cv := range nonAffine(loop) {
			n := cv.Next
			if n.Op == "ite" && n.Args[0].Op == "feq" && (n.Args[1] == S.SymTerm(cv.Sym) || n.Args[2] == S.SymTerm(cv.Sym)) {
				guarded = true
			}
		}
		if !guarded {
			probs = append(probs, "pk/qk is not guarded by qk != 0")
		}
	}
	c.Expect(len(probs) == 0, "R-FINITE-GUARDS", "igamc", where,
		"igamc clamps to 1 for x<=0 or a<=0, cuts underflow to 0, divides by qk only when it is non-zero and rescales all four continued-fraction state variables when |pk| > 2^52 (no Inf/Inf at large shapes)",
		strings.Join(probs, "; "))
}

// checkLogOfCountGuards: a logarithm of a table counter (c*log(c/n) terms of an entropy) is evaluated only under a
// condition that makes the counter positive; 0*log(0) is NaN in IEEE arithmetic, and short or degenerate admissible
// sequences do leave patterns unseen.
func checkLogOfCountGuards(c *Check, p *Prog, name string) {
	fn := p.Func(pkgRoot, name)
	if fn == nil {
		c.Fail("R-FINITE-GUARDS", name+"/log", "-", "function not found")
		return
	}
	x := NewExt(p, NewStore(), numConfig(fn))
	sum := x.Summarize(fn, nil, nil)
	S := x.S
	where := p.Pos(fn.Pos())
	if len(sum.Undecided) > 0 {
		c.Undecided("R-FINITE-GUARDS", name+"/log", where, "%s", strings.Join(sum.Undecided, "; "))
		return
	}
	// the counter a logarithm's argument is built from: i2f(k), i2f(k)/y, ...
	var countOf func(t *Term) *Term
	countOf = func(t *Term) *Term {
		switch t.Op {
		case "i2f":
			k := t.Args[0]
			if (k.K == KSym && k.Sym.Ev != nil && k.Sym.Ev.Kind == "load") || k.Op == "ld" {
				return k
			}
		case "fdiv", "fmul":
			return countOf(t.Args[0])
		}
		return nil
	}
	nLogs := 0
	var bad []string
	var walk func(t *Term, ctx *Term, seen map[*Term]bool)
	walk = func(t *Term, ctx *Term, seen map[*Term]bool) {
		if t == nil || t.K != KOp {
			return
		}
		if t.Op == "ite" {
			walk(t.Args[0], ctx, seen)
			walk(t.Args[1], S.And(ctx, t.Args[0]), map[*Term]bool{})
			walk(t.Args[2], S.And(ctx, S.Not(t.Args[0])), map[*Term]bool{})
			return
		}
		if seen[t] {
			return
		}
		seen[t] = true
		if t.Op == "call:math.Log" && len(t.Args) == 1 {
			if k := countOf(t.Args[0]); k != nil {
				nLogs++
				pos := S.Implies(ctx, S.Cmp(">", k, S.Int(0))) || S.Implies(ctx, S.Cmp("!=", k, S.Int(0)))
				if !pos {
					bad = append(bad, fmt.Sprintf("log(%v) is evaluated under %v, which does not exclude a zero counter", t.Args[0], ctx))
				}
			}
		}
		for _, a := range t.Args {
			walk(a, ctx, seen)
		}
	}
	sum.Top.AllLoops(func(l *LoopS) {
		for _, cv := range l.Carried {
			walk(cv.Next, S.True, map[*Term]bool{})
		}
	})
	sum.Top.Events(func(e *Event, _ []*LoopS) {
		g := e.Guard
		if g == nil {
			g = S.True
		}
		walk(e.Val, g, map[*Term]bool{})
		for _, r := range e.Rets {
			walk(r, g, map[*Term]bool{})
		}
	})
	c.Expect(len(bad) == 0 && nLogs >= 1, "R-FINITE-GUARDS", name+"/log", where,
		fmt.Sprintf("each of the %d logarithms of a pattern counter is taken only where that counter is positive (no 0*log 0 = NaN for unseen patterns)", nLogs),
		strings.Join(bad, "; ")+map[bool]string{true: "no logarithm of a counter found", false: ""}[nLogs == 0])
}

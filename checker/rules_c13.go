package main

import (
	"fmt"
	"go/types"
	"os"
	"regexp"
	"strconv"
	"strings"

	"golang.org/x/tools/go/ssa"
)

type hdrField struct {
	Num    string
	Kind   string // P Q P1 Q1 P2 Q2
	Name   string
	Params string
	Raw    string
}

var reHdr = regexp.MustCompile(`^\[\s*(\d+)\]\s+(P1|Q1|P2|Q2|P|Q)\s+(\S+)(?:\s+(.*))?$`)

func parseHeader(h string) (fields []hdrField, problems []string) {
	if !strings.HasSuffix(h, "\n") {
		problems = append(problems, "header does not end in a newline")
	}
	parts := strings.Split(strings.TrimSuffix(h, "\n"), ",")
	if len(parts) == 0 || strings.TrimSpace(parts[0]) != "源数据" {
		problems = append(problems, "first header field is not 源数据")
	}
	for _, raw := range parts[1:] {
		m := reHdr.FindStringSubmatch(strings.TrimSpace(raw))
		if m == nil {
			problems = append(problems, "unparseable header field "+strconv.Quote(raw))
			fields = append(fields, hdrField{Raw: raw})
			continue
		}
		fields = append(fields, hdrField{Num: m[1], Kind: m[2], Name: m[3], Params: strings.TrimSpace(m[4]), Raw: strings.TrimSpace(raw)})
	}
	return
}

// column spec: which library entry points implement a header test name, and how header parameters map to arguments.
type colSpec struct {
	Callees []string          // function names in package randomness
	Param   string            // header parameter key mapped to the first extra argument ("m", "k", "d", "")
}

var colSpecs = map[string]colSpec{
	"单比特频数检测":        {[]string{"MonoBitFrequencyTestBytes", "MonoBitFrequencyTest"}, ""},
	"块内频数检测":         {[]string{"FrequencyWithinBlockProto", "FrequencyWithinBlockTestBytes"}, "m"},
	"扑克检测":           {[]string{"PokerTestBytes", "PokerProto"}, "m"},
	"重叠子序列检测":        {[]string{"OverlappingTemplateMatchingProto", "OverlappingTemplateMatchingTestBytes"}, "m"},
	"游程总数检测":         {[]string{"RunsTest", "RunsTestBytes"}, ""},
	"游程分布检测":         {[]string{"RunsDistributionTest", "RunsDistributionTestBytes"}, ""},
	"块内最大“1”游程检测":   {[]string{"LongestRunOfOnesInABlockTest", "LongestRunOfOnesInABlockProto", "LongestRunOfOnesInABlockTestBytes"}, "one"},
	"块内最大“0”游程检测":   {[]string{"LongestRunOfOnesInABlockTest", "LongestRunOfOnesInABlockProto", "LongestRunOfOnesInABlockTestBytes"}, "zero"},
	"二元推导检测":         {[]string{"BinaryDerivativeProto", "BinaryDerivativeTest", "BinaryDerivativeTestBytes"}, "k"},
	"自相关检测":          {[]string{"AutocorrelationProto", "AutocorrelationTest", "AutocorrelationTestBytes"}, "d"},
	"矩阵秩检测":          {[]string{"MatrixRankTest", "MatrixRankProto", "MatrixRankTestBytes"}, "rank"},
	"累加和检测":          {[]string{"CumulativeTest", "CumulativeTestBytes"}, "dir"},
	"近似熵检测":          {[]string{"ApproximateEntropyProto", "ApproximateEntropyTestBytes"}, "m"},
	"线性复杂度检测":        {[]string{"LinearComplexityProto", "LinearComplexityTestBytes"}, "m"},
	"线型复杂度检测":        {[]string{"LinearComplexityProto", "LinearComplexityTestBytes"}, "m"},
	"Maurer通用统计检测":   {[]string{"MaurerUniversalTest", "MaurerUniversalTestBytes"}, "maurer"},
	"离散傅里叶检测":        {[]string{"DiscreteFourierTransformTest", "DiscreteFourierTransformTestBytes"}, ""},
}

func hdrParam(params, key string) (int64, bool) {
	for _, f := range strings.Fields(params) {
		if strings.HasPrefix(f, key+"=") {
			v, err := strconv.ParseInt(f[len(key)+1:], 10, 64)
			return v, err == nil
		}
	}
	return 0, false
}

// flattenAppend turns an append chain into the list of appended values.
func flattenAppend(S *Store, t *Term) ([]*Term, []*Event, bool) {
	vals, evs, _, ok := flattenAppendBase(S, t)
	return vals, evs, ok
}

// flattenAppendBase also returns the object backing the initial empty slice (nil for a nil slice).
func flattenAppendBase(S *Store, t *Term) ([]*Term, []*Event, *Term, bool) {
	var vals []*Term
	var evs []*Event
	var base *Term
	for {
		if t.IsNil() {
			break // nil slice: empty start
		}
		if root, off, ln, ok := isSliceOf(t); ok {
			// initial empty slice
			if isZero(off) && isZero(ln) {
				base = root
				break
			}
			return nil, nil, nil, false
		}
		if t.K != KSym || t.Sym.Ev == nil || t.Sym.Ev.Kind != "call" || t.Sym.Ev.Callee != "builtin:append" {
			return nil, nil, nil, false
		}
		e := t.Sym.Ev
		vals = append(append([]*Term{}, e.Args[1:]...), vals...)
		for range e.Args[1:] {
			evs = append([]*Event{e}, evs...)
		}
		t = e.Args[0]
	}
	return vals, evs, base, true
}

func resultSlot(fn *ssa.Function, kind string) int {
	res := fn.Signature.Results()
	named := false
	for i := 0; i < res.Len(); i++ {
		if res.At(i).Name() != "" {
			named = true
		}
	}
	if named {
		for i := 0; i < res.Len(); i++ {
			if strings.EqualFold(res.At(i).Name(), kind) {
				return i
			}
		}
		return -1
	}
	if res.Len() == 2 {
		switch kind {
		case "P":
			return 0
		case "Q":
			return 1
		}
	}
	return -1
}

func ruleC13(c *Check, p *Prog) {
	c.Explanation = "Decides the report's three hand-written tables against each other and the pipeline's pairing counts: R-HDR header syntax and (P,Q) column pairing; " +
		"R-COL for each of the value columns of the three scales the appended P and Q come from the same library call, from the result slot the header kind names, of an entry point implementing the named test, with the constant arguments the header label states (block length, k, d, direction, ones/zeros; longest-run m through selectParameters/parameters); " +
		"R-DATA each call is applied to the bits/bytes of the file of the current job; R-ROW exactly one row {Base(file), P, Q} is sent per job; R-WRITER the row writer prints Name then `, %0.6f, %0.6f` per (P[j],Q[j]) then newline and calls Done once per row; " +
		"R-SCALE header and worker of one scale are bound together and the header is written before the writer starts; R-PIPE Add(s) with s from the counting walker, n workers, and the job walker uses the same file filter as the counting walker. " +
		"NOT decided: liveness under all interleavings beyond these pairing counts (no scheduler model), the numeric values (C01-C05), formatting beyond the verb."
	c.Floor("R-HDR", 3)
	c.Floor("R-COL", 79)
	c.Floor("R-ROW", 3)
	// "one COMPLETE row per sample file": every library call of a row returns on an admissible sample (no validation panic
	// at the three scales, the 2^27-point transform of the 10^8-bit scale included), and the bits it is applied to are a
	// fresh expansion of the current file's bytes (not a buffer shared between the files in flight)
	for _, pr := range []string{"C01", "C02", "C03", "C04", "C05"} {
		checkPreconds(c, p, pr)
	}
	checkBitAdapters(c, p)
	// the 10^8-bit scale pads to exactly 2^27 points, the largest transform the fft package accepts: its size functions are
	// the reference ones (a bound moved from `>` to `>=` turns every row of that scale into a panic in the worker)
	for _, sp := range append(append([]numSpec{}, c05Specs[1:2]...), c19Specs[:2]...) {
		checkEquiv(c, p, "R-SCALE-FFT", sp.Key, sp.Spec, sp.What)
	}
	scales := []struct {
		Tag   string
		Bits  int64
		NCols int
	}{{"2E4", 20000, 44}, {"1E6", 1000000, 54}, {"1E8", 100000000, 60}}
	params := readLongestRunParams(p)
	for _, sc := range scales {
		hv := constOf(p, pkgDet, "Header_"+sc.Tag)
		wfn := p.Func(pkgDet, "worker_"+sc.Tag)
		if hv == nil || wfn == nil {
			c.Fail("R-ANCHOR", "scale-"+sc.Tag, "-", "Header_%s / worker_%s not found", sc.Tag, sc.Tag)
			continue
		}
		hs := constantString(hv)
		fields, probs := parseHeader(hs)
		hwhere := "tools/rddetector/work_" + sc.Tag + ".go"
		if obj := p.Pkgs[pkgDet].Types.Scope().Lookup("Header_" + sc.Tag); obj != nil {
			hwhere = p.Pos(obj.Pos())
		}
		// R-HDR
		if len(fields)%2 != 0 {
			probs = append(probs, "odd number of value columns")
		}
		for i := 0; i+1 < len(fields); i += 2 {
			a, b := fields[i], fields[i+1]
			wantQ := map[string]string{"P": "Q", "P1": "Q1", "P2": "Q2"}[a.Kind]
			if wantQ == "" || b.Kind != wantQ {
				probs = append(probs, fmt.Sprintf("columns %d,%d are not a (P,Q) pair: %q / %q", i+1, i+2, a.Raw, b.Raw))
			} else if a.Num != b.Num || a.Name != b.Name || a.Params != b.Params {
				probs = append(probs, fmt.Sprintf("columns %d,%d label different tests/parameters: %q / %q", i+1, i+2, a.Raw, b.Raw))
			}
		}
		c.Expect(len(probs) == 0, "R-HDR", "Header_"+sc.Tag, hwhere,
			fmt.Sprintf("%d value columns in adjacent (P-kind, Q-kind) pairs naming the same item, test and parameters; ends in newline", len(fields)),
			strings.Join(probs, "; "))
		// worker
		x := NewExt(p, NewStore(), Config{Opaque: opaquePkgs([]string{pkgRoot, pkgFFT}, false, nil)})
		sum := x.Summarize(wfn, nil, nil)
		S := x.S
		// per-parameter blocks rolled into a tiny constant loop are unrolled again
		unrollLoopsWithEffects(S, sum)
		if os.Getenv("VERIF_DUMP_C13") == sc.Tag {
			fmt.Fprint(os.Stderr, sum.Dump(p))
		}
		wwhere := p.Pos(wfn.Pos())
		if len(sum.Undecided) > 0 {
			c.Undecided("R-EXTRACT", "worker_"+sc.Tag, wwhere, "%s", strings.Join(sum.Undecided, "; "))
			continue
		}
		jobs := sum.Params[0]
		outCh := sum.Params[1]
		var jl *LoopS
		var recv *Event
		sum.Top.AllLoops(func(l *LoopS) {
			for _, it := range l.Body.Items {
				if e, ok := it.(*Event); ok && e.Kind == "recv" && e.Args[0] == jobs {
					jl, recv = l, e
				}
			}
		})
		if jl == nil {
			c.Fail("R-ROW", "worker_"+sc.Tag, wwhere, "no loop receiving file names from the jobs channel")
			continue
		}
		file := S.mkOp("extract0", TString, S.SymTerm(recv.Res))
		bodyG := S.Canon(S.And(recv.Guard, S.mkOp("extract1", TBool, S.SymTerm(recv.Res))))
		// data: buf = extract0(ReadFile(file)), bits = B2bitArr(buf)
		var readFile, b2b *Event
		jl.Body.Events(func(e *Event, _ []*LoopS) {
			if e.Kind == "call" && (e.Callee == "os.ReadFile") && len(e.Args) == 1 && e.Args[0] == file {
				readFile = e
			}
			if e.Kind == "call" && e.Callee == pkgRoot+".B2bitArr" {
				b2b = e
			}
		})
		var buf, bits *Term
		if readFile != nil {
			buf = S.mkOp("extract0", TRef, S.SymTerm(readFile.Res))
		}
		if b2b != nil && buf != nil && len(b2b.Args) == 1 && b2b.Args[0] == buf {
			bits = S.SymTerm(b2b.Res)
		}
		c.Expect(buf != nil && bits != nil, "R-DATA", "worker_"+sc.Tag+"/load", wherePos(p, readFile),
			"each job reads the whole file named by the job and expands it with B2bitArr", "the job does not read its file with ReadFile(filename) and expand it with B2bitArr")
		// the pairing counts of the pipeline assume that a worker blocks only on receiving a job and on handing over its row
		var blocking []string
		jl.Body.Events(func(e *Event, _ []*LoopS) {
			switch {
			case e.Kind == "recv" && e != recv, e.Kind == "send", e.Kind == "select":
				blocking = append(blocking, e.String(p))
			case e.Kind == "call" && (strings.HasPrefix(e.Callee, "(*sync.") || strings.HasPrefix(e.Callee, "sync.")) && !strings.HasSuffix(e.Callee, ".Done") && !strings.HasSuffix(e.Callee, ".Unlock") && !strings.HasSuffix(e.Callee, ".Add"):
				blocking = append(blocking, e.String(p))
			case e.Kind == "call" && strings.HasPrefix(e.Callee, "time.Sleep"):
				blocking = append(blocking, e.String(p))
			}
		})
		c.Expect(len(blocking) == 0, "R-PIPE", "worker_"+sc.Tag+"/nonblocking", wwhere,
			"between receiving a job and handing over its row the worker performs no channel operation, lock acquisition or wait (nothing else can block it for any worker count n >= 1)",
			"potentially blocking operation in the worker that the pipeline's pairing argument does not account for: "+trunc(strings.Join(blocking, " | "), 400))
		// row: go closure sending &R{Base(file), PArr, QArr}
		gos := events(jl.Body, func(e *Event) bool { return e.Kind == "go" })
		var pT, qT *Term
		rowOK := false
		rowDetail := fmt.Sprintf("%d go statements in the job loop", len(gos))
		var sendEv *Event
		if len(gos) == 1 && (gos[0].Closure != nil || gos[0].StaticCallee != nil) && S.Equivalent(gos[0].Guard, bodyG) {
			// the goroutine body: a closure, or a named function of this module started with `go f(args)`
			var cs *Summary
			if gos[0].Closure != nil {
				cs = x.Summarize(gos[0].Closure.Fn, gos[0].Args, gos[0].Closure.Free)
			} else {
				cs = x.Summarize(gos[0].StaticCallee, gos[0].Args, nil)
			}
			sends := events(cs.Top, func(e *Event) bool { return e.Kind == "send" })
			others := events(cs.Top, func(e *Event) bool {
				return e.Kind != "send" && e.Kind != "alloc" && e.Kind != "store" && e.Kind != "return"
			})
			if len(sends) == 1 && len(others) == 0 && sends[0].Guard == S.True && sends[0].Loop == nil && sends[0].Args[0] == outCh {
				sendEv = sends[0]
				obj := sends[0].Args[1]
				var nameT *Term
				// the row object is filled in by the goroutine body, or by the job iteration before it starts the goroutine
				fill := func(e *Event, _ []*LoopS) {
					if e.Kind == "store" && e.Root == obj && len(e.Path) == 1 {
						switch f, _ := e.Path[0].StrVal(); f {
						case ".Name":
							nameT = e.Val
						case ".P":
							pT = e.Val
						case ".Q":
							qT = e.Val
						}
					}
				}
				cs.Top.Events(fill)
				if nameT == nil && pT == nil && qT == nil {
					if al := objAlloc(sum, obj); al != nil && al.Loop == jl {
						jl.Body.Events(fill)
					}
				}
				baseOK := nameT != nil && (nameT.Op == "call:path.Base" || nameT.Op == "call:path/filepath.Base") && len(nameT.Args) == 1 && nameT.Args[0] == file
				if baseOK && pT != nil && qT != nil {
					rowOK = true
				} else {
					rowDetail = fmt.Sprintf("row fields: Name=%v P=%v Q=%v", nameT, pT != nil, qT != nil)
				}
			} else {
				rowDetail = fmt.Sprintf("closure performs %d sends and %d other effects", len(sends), len(others))
				if len(sends) == 1 && len(others) == 0 {
					rowDetail += fmt.Sprintf(" (send %v under %v; expected channel %v)", sends[0].Args[0], sends[0].Guard, outCh)
				}
			}
		}
		c.Expect(rowOK, "R-ROW", "worker_"+sc.Tag, wherePos(p, sendEv),
			"per received file name exactly one &R{Name: Base(filename), P, Q} is sent on out", "not exactly one row {Base(filename), P, Q} per job: "+rowDetail)
		if !rowOK {
			continue
		}
		pT, qT = S.Restrict(pT, bodyG), S.Restrict(qT, bodyG)
		pv, pe, pbase, ok1 := flattenAppendBase(S, pT)
		qv, qe, qbase, ok2 := flattenAppendBase(S, qT)
		// the row is consumed asynchronously by the writer: its slices must be allocations of this job
		freshRow := true
		for _, bb := range []*Term{pbase, qbase} {
			if bb != nil {
				if al := objAlloc(sum, bb); al == nil || al.Loop != jl {
					freshRow = false
				}
			}
		}
		if ok1 && ok2 {
			c.Expect(freshRow && pbase != qbase || (pbase == nil && qbase == nil), "R-ROW", "worker_"+sc.Tag+"/fresh", wherePos(p, sendEv),
				"the P and Q slices of a row are allocated inside the job iteration (the writer consumes rows asynchronously)",
				"the P/Q slices of a row are not fresh per job: a row still queued for the writer shares its backing array with the next file's results")
		}
		if !ok1 || !ok2 {
			c.Undecided("R-COL", "worker_"+sc.Tag, wwhere, "P/Q are not append-only chains starting from an empty slice")
			continue
		}
		npairs := len(fields) / 2
		c.Expect(len(pv) == npairs && len(qv) == npairs && len(fields) == sc.NCols, "R-COL", "worker_"+sc.Tag+"/count", wwhere,
			fmt.Sprintf("%d P values and %d Q values are appended for the header's %d value columns", len(pv), len(qv), len(fields)),
			fmt.Sprintf("%d P values, %d Q values appended vs %d header value columns (expected %d)", len(pv), len(qv), len(fields), sc.NCols))
		for k := 0; k < npairs && k < len(pv) && k < len(qv); k++ {
			hp, hq := fields[2*k], fields[2*k+1]
			key := fmt.Sprintf("Header_%s[%d]%s", sc.Tag, 2*k+1, strings.ReplaceAll(hp.Raw, " ", "_"))
			where := wherePos(p, pe[k])
			msg := checkColumn(p, S, hp, hq, pv[k], qv[k], buf, bits, sc.Bits, params)
			if msg == "" && !(S.Equivalent(pe[k].Guard, bodyG) && S.Equivalent(qe[k].Guard, bodyG)) {
				msg = "the append is conditional"
			}
			if msg == "" {
				c.Ok("R-COL", key, where, "columns %q/%q carry the P and Q of one call of the named test with the labelled parameters on this file's data", hp.Raw, hq.Raw)
			} else {
				c.Fail("R-COL", key, wherePos(p, qe[k]), "columns %q / %q: %s", hp.Raw, hq.Raw, msg)
			}
		}
	}
	checkWriter(c, p)
	checkFlagOrder(c, p, pkgDet, "rddetector.main")
	checkDetMain(c, p)
}

func constantString(v interface{ ExactString() string }) string {
	s, err := strconv.Unquote(v.ExactString())
	if err != nil {
		return v.ExactString()
	}
	return s
}

type lrParam struct {
	K, M, StartV int64
	Pi           []float64
}

func readLongestRunParams(p *Prog) []lrParam {
	l := p.GlobalLit(pkgRoot, "parameters")
	var out []lrParam
	if l == nil {
		return nil
	}
	for _, e := range l.Elems {
		var r lrParam
		r.K, _ = e.Fields["k"].Int()
		r.M, _ = e.Fields["m"].Int()
		r.StartV, _ = e.Fields["startV"].Int()
		if pi := e.Fields["pi"]; pi != nil {
			for _, x := range pi.Elems {
				f, _ := x.Float()
				r.Pi = append(r.Pi, f)
			}
		}
		out = append(out, r)
	}
	return out
}

// selectParamsAt evaluates selectParameters(n) from its extracted decision term.
func selectParamsAt(p *Prog, n int64) (int64, bool) {
	fn := p.Func(pkgRoot, "selectParameters")
	if fn == nil {
		return 0, false
	}
	x := NewExt(p, NewStore(), Config{})
	sum := x.Summarize(fn, nil, nil)
	if sum.NLoops > 0 || len(sum.Undecided) > 0 || len(sum.Params) != 1 || sum.Params[0].K != KSym {
		return 0, false
	}
	t := retMux(x.S, sum)
	if t == nil {
		return 0, false
	}
	return evalAt(t, sum.Params[0].Sym, n, nil).I, true
}

// retMux combines the return events of a loop-free single-result function into one term.
func retMux(S *Store, sum *Summary) *Term {
	var cases []muxCase
	for _, r := range sum.Rets {
		if r.Dead || len(r.Rets) != 1 {
			return nil
		}
		cases = append(cases, muxCase{r.Guard, r.Rets[0]})
	}
	if len(cases) == 0 {
		return nil
	}
	return S.Mux(cases, cases[0].V.Ty)
}

func checkColumn(p *Prog, S *Store, hp, hq hdrField, pv, qv, buf, bits *Term, scaleBits int64, params []lrParam) string {
	spec, ok := colSpecs[hp.Name]
	if !ok {
		return "unknown test name " + strconv.Quote(hp.Name)
	}
	callOf := func(v *Term) (*Event, int) {
		if strings.HasPrefix(v.Op, "extract") && v.Args[0].K == KSym && v.Args[0].Sym.Ev != nil && v.Args[0].Sym.Ev.Kind == "call" {
			var idx int
			fmt.Sscanf(v.Op, "extract%d", &idx)
			return v.Args[0].Sym.Ev, idx
		}
		return nil, -1
	}
	pc, pi := callOf(pv)
	qc, qi := callOf(qv)
	if pc == nil || qc == nil {
		return fmt.Sprintf("value is not a result of a library call (P=%v, Q=%v)", trunc(pv.String(), 80), trunc(qv.String(), 80))
	}
	if pc != qc {
		return fmt.Sprintf("P comes from the call at %s but Q from a different call at %s (%s)", p.Pos(pc.Pos), p.Pos(qc.Pos), argsString(qc))
	}
	fn := pc.StaticCallee
	if fn == nil {
		return "dynamic callee"
	}
	okCallee := false
	for _, n := range spec.Callees {
		if pc.Callee == pkgRoot+"."+n {
			okCallee = true
		}
	}
	if !okCallee {
		return fmt.Sprintf("value comes from %s, which does not implement %s", shortName(pc.Callee), hp.Name)
	}
	if ws := resultSlot(fn, hp.Kind); ws != pi {
		return fmt.Sprintf("column kind %s requires result #%d of %s but result #%d is appended", hp.Kind, ws, fn.Name(), pi)
	}
	if ws := resultSlot(fn, hq.Kind); ws != qi {
		return fmt.Sprintf("column kind %s requires result #%d of %s but result #%d is appended", hq.Kind, ws, fn.Name(), qi)
	}
	// data argument
	if len(pc.Args) == 0 {
		return "call without data argument"
	}
	wantData := bits
	if sl, ok := fn.Signature.Params().At(0).Type().Underlying().(*types.Slice); ok {
		if b, ok := sl.Elem().Underlying().(*types.Basic); ok && b.Kind() == types.Uint8 {
			wantData = buf
		}
	}
	if pc.Args[0] != wantData {
		return fmt.Sprintf("the call is not applied to the current file's data (argument %v)", trunc(pc.Args[0].String(), 80))
	}
	extra := pc.Args[1:]
	argInt := func(i int) (int64, bool) {
		if i < len(extra) {
			return extra[i].IntVal()
		}
		return 0, false
	}
	argBool := func(i int) (bool, bool) {
		if i < len(extra) {
			return extra[i].BoolVal()
		}
		return false, false
	}
	switch spec.Param {
	case "":
		if len(extra) != 0 {
			return "unexpected extra arguments"
		}
	case "m", "k", "d":
		want, ok := hdrParam(hp.Params, spec.Param)
		got, ok2 := argInt(0)
		if !ok || !ok2 || len(extra) != 1 {
			return fmt.Sprintf("label %q / arguments %s do not give one constant %s", hp.Params, argsString(pc), spec.Param)
		}
		if want != got {
			return fmt.Sprintf("label says %s=%d but the call passes %d", spec.Param, want, got)
		}
	case "one", "zero":
		got, ok := argBool(0)
		if !ok || got != (spec.Param == "one") {
			return fmt.Sprintf("label says longest run of %s but checkOne=%v", map[string]string{"one": "ones", "zero": "zeros"}[spec.Param], got)
		}
		want, okm := hdrParam(hp.Params, "m")
		idx, oks := selectParamsAt(p, scaleBits)
		if !okm || !oks || idx < 0 || int(idx) >= len(params) {
			return "cannot resolve the block length used for this scale"
		}
		if params[idx].M != want {
			return fmt.Sprintf("label says m=%d but the library uses block length %d for %d-bit samples", want, params[idx].M, scaleBits)
		}
	case "dir":
		got, ok := argBool(0)
		wantFwd := strings.Contains(hp.Params, "前向")
		wantBwd := strings.Contains(hp.Params, "后向")
		if !ok || wantFwd == wantBwd || got != wantFwd {
			return fmt.Sprintf("label %q vs forward=%v", hp.Params, got)
		}
	case "rank":
		if len(extra) == 2 {
			a, _ := argInt(0)
			b, _ := argInt(1)
			if a != 32 || b != 32 {
				return "matrix size is not 32x32"
			}
		} else if len(extra) != 0 {
			return "unexpected arguments"
		}
	case "maurer":
		l, ok1 := hdrParam(hp.Params, "L")
		q, ok2 := hdrParam(hp.Params, "Q")
		if !ok1 || !ok2 || l != 7 || q != 1280 || len(extra) != 0 {
			return "label must state L=7 Q=1280 (the library's fixed parameters)"
		}
	}
	return ""
}

func argsString(e *Event) string {
	var ss []string
	for _, a := range e.Args {
		ss = append(ss, trunc(a.String(), 40))
	}
	return shortName(e.Callee) + "(" + strings.Join(ss, ", ") + ")"
}

var reRowFmt = regexp.MustCompile(`^,\s*%0?\.6f,\s*%0?\.6f$`)

func checkWriter(c *Check, p *Prog) {
	fn := p.Func(pkgDet, "resultWriter")
	if fn == nil {
		c.Fail("R-WRITER", "resultWriter", "-", "function not found")
		return
	}
	x := NewExt(p, NewStore(), Config{})
	sum := x.Summarize(fn, nil, nil)
	S := x.S
	where := p.Pos(fn.Pos())
	if len(sum.Undecided) > 0 || len(sum.Params) != 3 {
		c.Undecided("R-WRITER", "resultWriter", where, "%s", strings.Join(sum.Undecided, "; "))
		return
	}
	in, w, wg := sum.Params[0], sum.Params[1], sum.Params[2]
	var jl *LoopS
	var recv *Event
	sum.Top.AllLoops(func(l *LoopS) {
		for _, it := range l.Body.Items {
			if e, ok := it.(*Event); ok && e.Kind == "recv" && e.Args[0] == in {
				jl, recv = l, e
			}
		}
	})
	if jl == nil {
		c.Fail("R-WRITER", "resultWriter", where, "no receive loop over the result channel")
		return
	}
	row := S.mkOp("extract0", TRef, S.SymTerm(recv.Res))
	bodyG := S.Canon(S.And(recv.Guard, S.mkOp("extract1", TBool, S.SymTerm(recv.Res))))
	// sequence of writes
	type wr struct {
		e     *Event
		loops []*LoopS
		text  *Term // what is written (a string term)
	}
	var writes []wr
	var dones []*Event
	var other []string
	jl.Body.Events(func(e *Event, loops []*LoopS) {
		switch {
		case e.Kind == "recv":
		case writePiece(S, e, w) != nil:
			writes = append(writes, wr{e, append([]*LoopS{}, loops...), writePiece(S, e, w)})
		case e.Kind == "call" && e.Callee == "(*sync.WaitGroup).Done" && e.Args[0] == wg:
			dones = append(dones, e)
			if len(loops) > 0 {
				other = append(other, "Done inside a nested loop")
			}
		case e.Kind == "call" && (strings.HasPrefix(e.Callee, "fmt.") || strings.HasPrefix(e.Callee, "log.")):
		default:
			other = append(other, e.String(p))
		}
	})
	var probs []string
	unwrap := func(t *Term) *Term {
		for strings.HasPrefix(t.Op, "conv:") {
			t = t.Args[0]
		}
		return t
	}
	if len(writes) != 3 {
		probs = append(probs, fmt.Sprintf("%d writes per row, expected name / values / newline", len(writes)))
	} else {
		nameT := unwrap(writes[0].text)
		if !(nameT == S.mkOp("ld", TString, row, fieldMarker(S, "Name")) && len(writes[0].loops) == 0 && S.Equivalent(writes[0].e.Guard, bodyG)) {
			probs = append(probs, "the first write is not r.Name")
		}
		v := writes[1]
		if len(v.loops) != 1 {
			probs = append(probs, "the value columns are not written by one loop over the row's values")
		} else {
			l := v.loops[0]
			it := iterTerm(S, l)
			pl := S.Op("max0", TInt, S.Op("len", TInt, S.mkOp("at", TRef, row, fieldMarker(S, "P"))))
			if l.Trip != pl {
				probs = append(probs, fmt.Sprintf("the value loop does not run j = 0..len(r.P)-1 (trip %v)", l.Trip))
			}
			ft := unwrap(v.text)
			okf := false
			if ft.Op == "call:fmt.Sprintf" && len(ft.Args) == 3 {
				f, _ := ft.Args[0].StrVal()
				pj := S.mkOp("ld", TFloat, row, fieldMarker(S, "P"), it)
				qj := S.mkOp("ld", TFloat, row, fieldMarker(S, "Q"), it)
				if reRowFmt.MatchString(f) && ft.Args[1] == pj && ft.Args[2] == qj {
					okf = true
				} else {
					probs = append(probs, fmt.Sprintf("value piece is Sprintf(%q, %v, %v), expected \", %%0.6f, %%0.6f\" of P[j], Q[j]", f, ft.Args[1], ft.Args[2]))
				}
			}
			if !okf && len(probs) == 0 {
				probs = append(probs, "value piece is not fmt.Sprintf(\", %0.6f, %0.6f\", r.P[j], r.Q[j])")
			}
		}
		nl, _ := unwrap(writes[2].text).StrVal()
		if nl != "\n" || len(writes[2].loops) != 0 || !S.Equivalent(writes[2].e.Guard, bodyG) {
			probs = append(probs, "the row is not terminated by one newline")
		}
	}
	if len(dones) != 1 || !S.Equivalent(dones[0].Guard, bodyG) {
		probs = append(probs, fmt.Sprintf("wg.Done is not called exactly once per row (%d sites)", len(dones)))
	} else {
		// ... and only when the row is completely written (main closes the report after wg.Wait)
		for _, w := range writes {
			if dones[0].Seq < w.e.Seq {
				probs = append(probs, "wg.Done is called before the row is completely written: main's Wait can return, and the report be closed, while the row is still going out")
				break
			}
		}
	}
	probs = append(probs, other...)
	c.Expect(len(probs) == 0, "R-WRITER", "resultWriter", where,
		"per row: Name, then for j=0..len(P)-1 \", %0.6f, %0.6f\" of (P[j], Q[j]), then newline; wg.Done exactly once per row", strings.Join(probs, "; "))
}

func detConfig() Config {
	return Config{Opaque: func(f *ssa.Function) (bool, bool) {
		if f.Pkg == nil {
			return false, false
		}
		switch f.Pkg.Pkg.Path() {
		case pkgRoot, pkgFFT:
			return true, false
		case pkgDet:
			switch f.Name() {
			case "worker_2E4", "worker_1E6", "worker_1E8", "resultWriter", "usage":
				return true, false
			}
		}
		return false, false
	}, PureInvoke: map[string]bool{"IsDir": true, "Size": true, "Name": true, "Mode": true}}
}

func checkDetMain(c *Check, p *Prog) {
	fn := p.Func(pkgDet, "main")
	if fn == nil {
		c.Fail("R-SCALE", "main", "-", "rddetector main not found")
		return
	}
	x := NewExt(p, NewStore(), detConfig())
	sum := x.Summarize(fn, nil, nil)
	S := x.S
	where := p.Pos(fn.Pos())
	if len(sum.Undecided) > 0 {
		c.Undecided("R-EXTRACT", "rddetector.main", where, "%s", strings.Join(sum.Undecided, "; "))
		return
	}
	// the scale variable: second result of toBeTestFileNum = havoc of the `bits` cell; find it through the header write
	var hdrWrite, writerGo, workerGo, walkGo, addEv, waitEv, countWalk *Event
	sum.Top.Events(func(e *Event, loops []*LoopS) {
		switch {
		case e.Kind == "call" && e.Callee == "(*os.File).WriteString":
			hdrWrite = e
		case e.Kind == "go" && e.Callee == pkgDet+".resultWriter":
			writerGo = e
		case e.Kind == "go" && e.Callee == "path/filepath.Walk":
			walkGo = e
		case e.Kind == "go" && len(loops) == 1:
			workerGo = e
		case e.Kind == "call" && e.Callee == "path/filepath.Walk":
			countWalk = e
		case e.Kind == "call" && e.Callee == "(*sync.WaitGroup).Add":
			addEv = e
		case e.Kind == "call" && e.Callee == "(*sync.WaitGroup).Wait":
			waitEv = e
		}
	})
	if hdrWrite == nil || writerGo == nil || workerGo == nil || walkGo == nil || addEv == nil || waitEv == nil || countWalk == nil {
		c.Fail("R-PIPE", "main/shape", where, "pipeline stages not recognised (header write %v, writer %v, workers %v, walker %v, Add %v, Wait %v, counting walk %v)",
			hdrWrite != nil, writerGo != nil, workerGo != nil, walkGo != nil, addEv != nil, waitEv != nil, countWalk != nil)
		return
	}
	// R-SCALE: evaluate (header, worker) at the three sizes of the scale symbol
	hdrT := hdrWrite.Args[1]
	wT := workerGo.FnTerm
	var scaleSym *Symbol
	Walk(hdrT, map[*Term]bool{}, func(t *Term) {
		if t.K == KSym && t.Sym.Ty == TInt && scaleSym == nil {
			scaleSym = t.Sym
		}
	})
	var sprobs []string
	if scaleSym == nil || wT == nil {
		sprobs = append(sprobs, "header / worker do not depend on one inferred sample-size value")
	} else {
		for _, sc := range []struct {
			tag  string
			bits int64
		}{{"2E4", 20000}, {"1E6", 1000000}, {"1E8", 100000000}} {
			hv := evalAt(hdrT, scaleSym, sc.bits, nil)
			want := constantString(constOf(p, pkgDet, "Header_"+sc.tag))
			if hv.K != TString || hv.S != want {
				sprobs = append(sprobs, fmt.Sprintf("for %d-bit samples the header written is not Header_%s", sc.bits, sc.tag))
			}
			wv := evalAt(wT, scaleSym, sc.bits, nil)
			wfn := p.Func(pkgDet, "worker_"+sc.tag)
			wantW := evalAt(x.funcTerm(wfn), scaleSym, sc.bits, nil)
			if wv.R != wantW.R {
				sprobs = append(sprobs, fmt.Sprintf("for %d-bit samples the worker started is not worker_%s", sc.bits, sc.tag))
			}
		}
		// anything else exits before the pipeline
		for _, other := range []int64{0, 8, 19999, 20008, 999999, 99999999, 100000008} {
			g := evalAt(workerGo.Loop.Guard, scaleSym, other, nil)
			_ = g
		}
	}
	if !(hdrWrite.Seq < writerGo.Seq && hdrWrite.Loop == nil && S.Implies(writerGo.Guard, hdrWrite.Guard)) {
		sprobs = append(sprobs, "the header is not written before the writer goroutine starts")
	}
	c.Expect(len(sprobs) == 0, "R-SCALE", "main", wherePos(p, hdrWrite),
		"sizes 20000 / 10^6 / 10^8 bits bind (Header_2E4, worker_2E4) / (Header_1E6, worker_1E6) / (Header_1E8, worker_1E8); the header is written before the writer starts", strings.Join(sprobs, "; "))
	// R-PIPE
	var pprobs []string
	// Add(s) with s the sample count of the counting walk: the havoc symbol of the `samples` cell
	sT := addEv.Args[1]
	if !(sT.K == KSym && strings.Contains(sT.Sym.Name, "havoc_samples")) {
		pprobs = append(pprobs, fmt.Sprintf("wg.Add argument %v is not the sample count returned by the counting walk", sT))
	}
	if !(addEv.Seq < workerGo.Seq && addEv.Seq < walkGo.Seq && addEv.Loop == nil) {
		pprobs = append(pprobs, "wg.Add does not precede the start of the pipeline")
	}
	wl := workerGo.Loop
	nw := S.Op("max0", TInt, S.mkOp("ld", TInt, x.globalSym(p.Global(pkgDet, "NumWorkers"))))
	if wl == nil || wl.Trip != nw {
		pprobs = append(pprobs, fmt.Sprintf("workers are not started by `for i := 0; i < NumWorkers; i++` (trip %v)", nilTrip(wl)))
	}
	if !(waitEv.Seq > walkGo.Seq && waitEv.Loop == nil) {
		pprobs = append(pprobs, "wg.Wait() does not follow the start of all stages")
	}
	// channel wiring: workers get (jobs, out), writer gets out, walker sends on jobs
	c.Expect(len(pprobs) == 0, "R-PIPE", "main/counts", where, "wg.Add(sample count) precedes the pipeline; NumWorkers workers; Wait after all stages are started", strings.Join(pprobs, "; "))
	// filter agreement between the two walkers
	filt := func(e *Event, idx int, effect string) (*Term, string) {
		if len(e.Args) < 2 || e.Args[1].Op != "closure" {
			return nil, "walk callback is not a closure literal"
		}
		clo := e.Args[1]
		cfn := clo.Args[0].Sym.Obj.(*ssa.Function)
		cs := x.Summarize(cfn, walkArgs(x, idx), clo.Args[1:])
		var g *Term
		n := 0
		cs.Top.Events(func(ev *Event, _ []*LoopS) {
			if effect == "send" && ev.Kind == "send" {
				g = ev.Guard
				n++
			}
		})
		if effect == "count" {
			// the increment of the captured sample counter: the cell value after the closure body
			for _, f := range clo.Args[1:] {
				if isCellTerm(f) && strings.HasPrefix(f.Sym.Name, "samples") {
					cur := x.cellCur[f.Sym]
					// cur = ite(g, old+1, old)
					if cur != nil && cur.Op == "ite" {
						d := S.Sub(cur.Args[1], cur.Args[2])
						if v, ok := d.IntVal(); ok && v == 1 {
							g = cur.Args[0]
							n = 1
						}
					}
				}
			}
		}
		if n != 1 || g == nil {
			return nil, "callback effect not recognised"
		}
		// R-PIPE/walk-complete: filepath.Walk visits every entry only as long as the callback returns nil: a
		// non-nil return stops the walk, and filepath.SkipDir returned for a regular file skips the REST of its
		// directory - the samples sorting after it are then neither counted nor dispatched, and the report
		// silently lacks their rows. The incoming walk error (third parameter) is the only other accepted value.
		wa := walkArgs(x, idx)
		var badRet []string
		nret := 0
		for _, r := range cs.Rets {
			if r.Dead || len(r.Rets) != 1 {
				continue
			}
			nret++
			if !(r.Rets[0].IsNil() || r.Rets[0] == wa[2]) {
				badRet = append(badRet, fmt.Sprintf("%s returns %v under %v", p.Pos(r.Pos), r.Rets[0], r.Guard))
			}
		}
		c.Expect(len(badRet) == 0 && nret > 0, "R-PIPE", "main/walk-complete/"+effect, wherePos(p, e),
			fmt.Sprintf("all %d returns of the walk callback yield nil (or the incoming walk error): no entry is skipped", nret),
			"the walk callback can abort the walk or skip the rest of a directory (samples after that entry get no row): "+strings.Join(badRet, "; "))
		return S.Canon(g), ""
	}
	// the sample size is inferred only from counted sample files
	if countWalk.Args[1].Op == "closure" {
		clo := countWalk.Args[1]
		snap := map[*Symbol]*Term{}
		for k, v := range x.cellCur {
			snap[k] = v
		}
		x.Summarize(clo.Args[0].Sym.Obj.(*ssa.Function), walkArgs(x, 0), clo.Args[1:])
		var bitsCond, cntCond *Term
		for _, f := range clo.Args[1:] {
			if isCellTerm(f) {
				cur := x.cellCur[f.Sym]
				if cur != nil && cur.Op == "ite" {
					if strings.HasPrefix(f.Sym.Name, "bits") {
						bitsCond = cur.Args[0]
					}
					if strings.HasPrefix(f.Sym.Name, "samples") {
						cntCond = cur.Args[0]
					}
				}
			}
		}
		x.cellCur = snap
		okInfer := bitsCond != nil && cntCond != nil && S.Implies(bitsCond, cntCond)
		c.Expect(okInfer, "R-SCALE", "main/inference", wherePos(p, countWalk),
			"the sample size is updated only for entries that are counted as samples (same suffix and directory filter)",
			fmt.Sprintf("the sample size can be inferred from an entry that is not counted as a sample (size update under %v, count under %v): a larger non-sample file selects a wrong or unsupported scale", bitsCond, cntCond))
	}
	// the report is created/truncated for writing at the -o path
	var openEv *Event
	sum.Top.Events(func(e *Event, _ []*LoopS) {
		if e.Kind == "call" && (e.Callee == "os.OpenFile" || e.Callee == "os.Create") {
			openEv = e
		}
	})
	okOpen := false
	odetail := "the report is not opened with os.OpenFile/os.Create on reportPath"
	if openEv != nil && openEv.Args[0] == S.mkOp("ld", TString, x.globalSym(p.Global(pkgDet, "reportPath"))) {
		if openEv.Callee == "os.Create" {
			okOpen = true
		} else if fl, ok := intOf(argAt(openEv, 1)); ok {
			okOpen = fl&int64(os.O_CREATE) != 0 && fl&int64(os.O_TRUNC) != 0 && (fl&int64(os.O_WRONLY) != 0 || fl&int64(os.O_RDWR) != 0) && fl&int64(os.O_APPEND) == 0
			odetail = fmt.Sprintf("open flags %#x: the report must be created and truncated for writing (stale rows of an earlier, longer report would remain)", fl)
		}
		if okOpen && hdrWrite.Args[0] != S.mkOp("extract0", TRef, S.SymTerm(openEv.Res)) {
			okOpen = false
			odetail = "the header is not written to the file just opened"
		}
	}
	c.Expect(okOpen, "R-SCALE", "main/report-open", wherePos(p, openEv), "the report file at the -o path is created and truncated for writing; header and rows go to it", odetail)
	gJob, m1 := filt(walkGo, 0, "send")
	gCnt, m2 := filt(countWalk, 0, "count")
	if m1 != "" || m2 != "" {
		c.Undecided("R-PIPE", "main/filter", where, "job walker: %s; counting walker: %s", m1, m2)
		return
	}
	c.Expect(S.Equivalent(gJob, gCnt), "R-PIPE", "main/filter", wherePos(p, walkGo),
		"the job walker dispatches exactly the entries the counting walker counted (same suffix set, same directory/nil-info exclusion)",
		fmt.Sprintf("the job walker's filter %v differs from the counting walker's %v: a counted/dispatched mismatch (e.g. a directory named x.bin becomes a job and wg never balances)", gJob, gCnt))
}

var walkArgCache = map[*Ext][]*Term{}

// walkArgs returns shared symbolic arguments (path, info, err) for filepath.WalkFunc closures.
func walkArgs(x *Ext, _ int) []*Term {
	if a, ok := walkArgCache[x]; ok {
		return a
	}
	S := x.S
	mk := func(n string, ty TyClass) *Term {
		sy := S.NewSym(SParam, n, ty)
		return S.SymTerm(sy)
	}
	a := []*Term{mk("walkPath", TString), mk("walkInfo", TRef), mk("walkErr", TRef)}
	walkArgCache[x] = a
	return a
}

// writePiece: the text an event writes to writer w, for the spellings w.Write([]byte(s)), w.WriteString(s),
// io.WriteString(w, s), fmt.Fprint(w, s) with one string operand and fmt.Fprintf(w, f, args...) (returned as
// the equivalent fmt.Sprintf term); nil when the event is not a write to w.
func writePiece(S *Store, e *Event, w *Term) *Term {
	if e.Kind != "call" {
		return nil
	}
	switch e.Callee {
	case "invoke:Write", "invoke:WriteString":
		if e.Recv == w && len(e.Args) == 1 {
			return e.Args[0]
		}
	case "io.WriteString":
		if len(e.Args) == 2 && e.Args[0] == w {
			return e.Args[1]
		}
	case "fmt.Fprint":
		if len(e.Args) == 2 && e.Args[0] == w && (e.Args[1].Ty == TString) {
			return e.Args[1]
		}
	case "fmt.Fprintf":
		if len(e.Args) >= 2 && e.Args[0] == w {
			return S.mkOp("call:fmt.Sprintf", TString, e.Args[1:]...)
		}
	}
	return nil
}

package main

import (
	"fmt"
	"golang.org/x/tools/go/packages"
	"golang.org/x/tools/go/ssa"
	"golang.org/x/tools/go/ssa/ssautil"
	"golang.org/x/tools/go/callgraph/vta"
	"golang.org/x/tools/go/callgraph/cha"
)

func main() {
	cfg := &packages.Config{Mode: packages.LoadAllSyntax, Dir: "/repo", Tests: false}
	pkgs, err := packages.Load(cfg, "./...")
	if err != nil { panic(err) }
	prog, spkgs := ssautil.AllPackages(pkgs, ssa.InstantiateGenerics)
	prog.Build()
	fmt.Println(len(pkgs), len(spkgs))
	cg := vta.CallGraph(ssautil.AllFunctions(prog), cha.CallGraph(prog))
	fmt.Println(len(cg.Nodes))
}

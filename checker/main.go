package main

import (
	"flag"
	"fmt"
	"os"
	"runtime/debug"
	"strconv"
	"strings"
)

type ruleFn func(c *Check, p *Prog)

var rules = map[string]ruleFn{
	"C01": ruleC01,
	"C02": ruleC02,
	"C03": ruleC03,
	"C04": ruleC04,
	"C05": ruleC05,
	"C06": ruleC06,
	"C19": ruleC19,
	"C07": ruleC07,
	"C08": ruleC08,
	"C09": ruleC09,
	"C10": ruleC10,
	"C11": ruleC11,
	"C12": ruleC12,
	"C13": ruleC13,
	"C14": ruleC14,
	"C15": ruleC15,
	"C16": ruleC16,
	"C17": ruleC17,
	"C18": ruleC18,
	"C20": ruleC20,
}

func verifDir() string {
	if v := os.Getenv("VERIF_HOME"); v != "" {
		return v
	}
	return "/verif"
}

// srcDir is where the checker's own sources (reference package) live.
func srcDir() string {
	if v := os.Getenv("VERIF_SRC"); v != "" {
		return v
	}
	return "/verif"
}

func main() {
	dump := flag.String("dump", "", "pkg:Func to dump the summary of (debug)")
	repo := flag.String("repo", "/repo", "repository root")
	prop := flag.String("prop", "", "property id")
	tier := flag.String("tier", "quick", "quick|thorough")
	only := flag.String("only", "", "report only this obligation key")
	replay := flag.String("replay", "", "replay file written by an earlier run")
	flag.Parse()
	if v := os.Getenv("VERIF_TIER"); v != "" && *tier == "" {
		*tier = v
	}
	seed := int64(1)
	if v := os.Getenv("VERIF_SEED"); v != "" {
		if n, err := strconv.ParseInt(v, 10, 64); err == nil {
			seed = n
		}
	}
	if *dump != "" {
		p, err := LoadProg(*repo, []string{"./..."}, wantPkgs, nil)
		if err != nil {
			fmt.Println("load error:", err)
			os.Exit(2)
		}
		parts := strings.SplitN(*dump, ":", 2)
		pkg := modPath
		if parts[0] != "" {
			pkg = modPath + "/" + parts[0]
		}
		fn := p.Func(pkg, parts[1])
		if fn == nil {
			fmt.Println("no such function")
			os.Exit(2)
		}
		x := NewExt(p, NewStore(), wfConfig())
		s := x.Summarize(fn, nil, nil)
		fmt.Print(s.Dump(p))
		return
	}
	if *replay != "" {
		pr, key := readReplay(*replay)
		if pr == "" {
			fmt.Println("cannot read replay file", *replay)
			os.Exit(2)
		}
		*prop, *only = pr, key
	}
	rf := rules[*prop]
	if rf == nil {
		fmt.Printf("unknown property %q\n", *prop)
		os.Exit(2)
	}
	c := NewCheck(*prop, *tier, seed)
	code := runCheck(c, rf, *repo, *only)
	os.Exit(code)
}

func runCheck(c *Check, rf ruleFn, repo, only string) (code int) {
	defer func() {
		if r := recover(); r != nil {
			c.Fail("R-CHECKER-PANIC", c.Prop, "-", "checker panicked: %v\n%s", r, trunc(string(debug.Stack()), 1500))
			code = c.Finish(verifDir(), only)
			if code == 0 {
				code = 1
			}
		}
	}()
	p, err := LoadProg(repo, []string{"./..."}, wantPkgs, nil)
	if err != nil {
		c.Explanation = "the repository could not be loaded and type-checked; nothing was decided"
		c.Fail("R-LOAD", "repo", "-", "cannot analyse %s: %v", repo, err)
		return c.Finish(verifDir(), only)
	}
	c.P = p
	c.Extra["packages_analysed"] = len(p.Pkgs)
	c.Extra["functions_with_bodies"] = p.NFunc
	rf(c, p)
	checkLiterals(c, p)
	switch c.Prop {
	case "C07", "C08", "C10", "C14", "C15":
		checkStateless(c, p)
	}
	return c.Finish(verifDir(), only)
}

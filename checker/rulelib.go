package main

import (
	"fmt"
	"go/constant"
	"go/types"
	"strings"

	"golang.org/x/tools/go/ssa"
)

const (
	pkgRoot   = modPath
	pkgDetect = modPath + "/detect"
	pkgFFT    = modPath + "/fft"
	pkgDet    = modPath + "/tools/rddetector"
	pkgGen    = modPath + "/tools/rdgen"
)

// opaqueSet builds a Config.Opaque function: names are canonical function names; value true = pure.
func opaqueSet(m map[string]bool) func(*ssa.Function) (bool, bool) {
	return func(f *ssa.Function) (bool, bool) {
		pure, ok := m[canonFunc(f)]
		return ok, pure
	}
}

// opaqueAllOf keeps every function of the listed packages opaque (pure), except the listed inlinable ones.
func opaquePkgs(pkgs []string, pureAll bool, except map[string]bool) func(*ssa.Function) (bool, bool) {
	return func(f *ssa.Function) (bool, bool) {
		if f.Pkg == nil {
			return false, false
		}
		if except[canonFunc(f)] {
			return false, false
		}
		for _, p := range pkgs {
			if f.Pkg.Pkg.Path() == p {
				return true, pureAll
			}
		}
		return false, false
	}
}

func events(r *Region, pred func(e *Event) bool) []*Event {
	var out []*Event
	r.Events(func(e *Event, _ []*LoopS) {
		if pred(e) {
			out = append(out, e)
		}
	})
	return out
}

func mentions(t *Term, x *Term) bool {
	if t == nil {
		return false
	}
	found := false
	Walk(t, map[*Term]bool{}, func(y *Term) {
		if y == x {
			found = true
		}
	})
	return found
}

func eventMentions(e *Event, x *Term) bool {
	for _, a := range e.Args {
		if mentions(a, x) {
			return true
		}
	}
	if mentions(e.Recv, x) || mentions(e.Root, x) || mentions(e.Val, x) || mentions(e.FnTerm, x) {
		return true
	}
	for _, a := range e.Path {
		if mentions(a, x) {
			return true
		}
	}
	for _, a := range e.Rets {
		if mentions(a, x) {
			return true
		}
	}
	if e.Closure != nil {
		for _, a := range e.Closure.Free {
			if mentions(a, x) {
				return true
			}
		}
	}
	return false
}

// literals returns the literals of a guard that is a pure conjunction, or ok=false.
type literal struct {
	Atom *Term
	Pos  bool
}

func (s *Store) literals(g *Term) ([]literal, bool) {
	if g == s.True {
		return nil, true
	}
	set := map[*Term]bool{}
	s.collectAtoms(g, set, map[*Term]bool{})
	atoms := sortedAtoms(set)
	if len(atoms) > maxAtoms {
		return nil, false
	}
	// conjunction <=> exactly one satisfying assignment over the essential atoms
	var sat []map[*Term]bool
	asg := map[*Term]bool{}
	var rec func(i int)
	rec = func(i int) {
		if len(sat) > 1 {
			return
		}
		if i == len(atoms) {
			if s.evalBool(g, asg, map[*Term]bool{}) {
				cp := map[*Term]bool{}
				for k, v := range asg {
					cp[k] = v
				}
				sat = append(sat, cp)
			}
			return
		}
		asg[atoms[i]] = true
		rec(i + 1)
		asg[atoms[i]] = false
		rec(i + 1)
	}
	rec(0)
	if len(sat) != 1 {
		return nil, false
	}
	var ls []literal
	for _, a := range atoms {
		ls = append(ls, literal{a, sat[0][a]})
	}
	return ls, true
}

func objAlloc(sum *Summary, obj *Term) *Event {
	// a field embedded by value lives and dies with the object that contains it
	if obj != nil && obj.Op == "addr" && len(obj.Args) == 2 {
		if _, isField := obj.Args[1].StrVal(); isField {
			obj = obj.Args[0]
		}
	}
	if obj == nil || obj.K != KSym {
		return nil
	}
	var ev *Event
	sum.Top.Events(func(e *Event, _ []*LoopS) {
		if e.Kind == "alloc" && e.Res == obj.Sym {
			ev = e
		}
	})
	return ev
}

func constOf(p *Prog, pkg, name string) constant.Value {
	pk := p.Pkgs[pkg]
	if pk == nil {
		return nil
	}
	c, _ := pk.Types.Scope().Lookup(name).(*types.Const)
	if c == nil {
		return nil
	}
	return c.Val()
}

func constFloat(p *Prog, pkg, name string) (float64, bool) {
	v := constOf(p, pkg, name)
	if v == nil {
		return 0, false
	}
	f, _ := constant.Float64Val(constant.ToFloat(v))
	return f, true
}

func isCall(t *Term, name string) bool { return t != nil && t.Op == "call:"+name }

func fnName(pkg, name string) string { return pkg + "." + name }

func shortFn(f *ssa.Function) string {
	if f == nil {
		return "?"
	}
	s := f.String()
	s = strings.TrimPrefix(s, modPath+"/")
	s = strings.TrimPrefix(s, modPath+".")
	return s
}

func wherePos(p *Prog, e *Event) string {
	if e == nil {
		return "-"
	}
	return p.Pos(e.Pos)
}

func loopWhere(p *Prog, l *LoopS) string {
	if l == nil {
		return "-"
	}
	return p.Pos(l.Pos)
}

// exitOfSym maps exit symbols to their loop and index.
func exitIndex(sum *Summary) map[*Symbol]*Exit {
	m := map[*Symbol]*Exit{}
	sum.Top.AllLoops(func(l *LoopS) {
		for _, x := range l.Exits {
			if x.Sym != nil {
				m[x.Sym] = x
			}
		}
	})
	return m
}

func loopOfExit(sum *Summary, ex *Exit) *LoopS {
	var r *LoopS
	sum.Top.AllLoops(func(l *LoopS) {
		for _, x := range l.Exits {
			if x == ex {
				r = l
			}
		}
	})
	return r
}

func headExit(l *LoopS) *Exit {
	for _, x := range l.Exits {
		if x.AtHead && x.From == l.Info.Header {
			return x
		}
	}
	return nil
}

func fmtTerms(ts []*Term) string {
	var ss []string
	for _, t := range ts {
		ss = append(ss, trunc(fmt.Sprint(t), 80))
	}
	return "[" + strings.Join(ss, ", ") + "]"
}

func iterTerm(S *Store, l *LoopS) *Term { return S.SymTerm(l.Iter) }

func isSliceOf(t *Term) (root, off, ln *Term, ok bool) {
	if t != nil && t.Op == "slice" {
		return t.Args[0], t.Args[1], t.Args[2], true
	}
	return nil, nil, nil, false
}

func isZero(t *Term) bool {
	v, ok := t.IntVal()
	return ok && v == 0
}

// exitAxioms: the exit symbols of one loop are pairwise exclusive.
func exitAxioms(S *Store, sum *Summary) *Term {
	ax := S.True
	sum.Top.AllLoops(func(l *LoopS) {
		var syms []*Term
		for _, x := range l.Exits {
			if x.Sym != nil {
				syms = append(syms, S.SymTerm(x.Sym))
			}
		}
		for i := range syms {
			for j := i + 1; j < len(syms); j++ {
				ax = S.And(ax, S.Not(S.And(syms[i], syms[j])))
			}
		}
	})
	return ax
}

// outerGuard: the condition, relative to the region being traversed, under which e can execute
// (for events inside nested loops this is the entry guard of the outermost nested loop).
func outerGuard(e *Event, loops []*LoopS) *Term {
	if len(loops) > 0 {
		return loops[0].Guard
	}
	return e.Guard
}

package main

// R-FLAG-ORDER: a command-line variable holds its default until flag.Parse() has run. Every read of a variable bound
// by flag.XxxVar must therefore come after the parse: in main, the read is dominated by the call that parses (directly
// or through a helper); in any other function of the package, every call / go site of it in main is.

import (
	"fmt"
	"sort"
	"strings"

	"golang.org/x/tools/go/ssa"
)

func checkFlagOrder(c *Check, p *Prog, pkg, key string) {
	sp := p.SPkgs[pkg]
	if sp == nil {
		c.Fail("R-FLAG-ORDER", key, "-", "package not loaded")
		return
	}
	mainFn := sp.Func("main")
	if mainFn == nil {
		c.Fail("R-FLAG-ORDER", key, "-", "main not found")
		return
	}
	var fns []*ssa.Function
	var add func(f *ssa.Function)
	seen := map[*ssa.Function]bool{}
	add = func(f *ssa.Function) {
		if f == nil || seen[f] || f.Blocks == nil {
			return
		}
		seen[f] = true
		fns = append(fns, f)
		for _, a := range f.AnonFuncs {
			add(a)
		}
	}
	for _, m := range sp.Members {
		if f, ok := m.(*ssa.Function); ok {
			add(f)
		}
	}
	// flag-bound globals
	bound := map[*ssa.Global]string{}
	for _, f := range fns {
		for _, b := range f.Blocks {
			for _, in := range b.Instrs {
				call, ok := in.(ssa.CallInstruction)
				if !ok {
					continue
				}
				cal := call.Common().StaticCallee()
				if cal == nil || cal.Pkg == nil || cal.Pkg.Pkg.Path() != "flag" || !strings.HasSuffix(cal.Name(), "Var") || len(call.Common().Args) < 2 {
					continue
				}
				if g, ok := call.Common().Args[0].(*ssa.Global); ok {
					name := ""
					if k, ok := call.Common().Args[1].(*ssa.Const); ok {
						name = strings.Trim(k.Value.ExactString(), `"`)
					}
					bound[g] = name
				}
			}
		}
	}
	// which functions parse (transitively, inside the package)
	parses := map[*ssa.Function]bool{}
	for changed := true; changed; {
		changed = false
		for _, f := range fns {
			if parses[f] {
				continue
			}
			for _, b := range f.Blocks {
				for _, in := range b.Instrs {
					if call, ok := in.(*ssa.Call); ok {
						if cal := call.Common().StaticCallee(); cal != nil {
							if (cal.Pkg != nil && cal.Pkg.Pkg.Path() == "flag" && cal.Name() == "Parse") || parses[cal] {
								parses[f] = true
								changed = true
							}
						}
					}
				}
			}
		}
	}
	// the parse point in main
	var pb *ssa.BasicBlock
	pi := -1
	for _, b := range mainFn.Blocks {
		for i, in := range b.Instrs {
			if call, ok := in.(*ssa.Call); ok && pb == nil {
				if cal := call.Common().StaticCallee(); cal != nil && ((cal.Pkg != nil && cal.Pkg.Pkg.Path() == "flag" && cal.Name() == "Parse") || parses[cal]) {
					pb, pi = b, i
				}
			}
		}
	}
	where := p.Pos(mainFn.Pos())
	if pb == nil {
		c.Fail("R-FLAG-ORDER", key, where, "main never calls flag.Parse()")
		return
	}
	after := func(b *ssa.BasicBlock, i int) bool {
		if b == pb {
			return i > pi
		}
		return pb.Dominates(b)
	}
	// which functions read a flag-bound global (registration and the parsing helpers themselves excluded)
	reads := map[*ssa.Function][]string{}
	for _, f := range fns {
		if f.Name() == "init" || strings.HasPrefix(f.Name(), "init#") {
			continue
		}
		for _, b := range f.Blocks {
			for i, in := range b.Instrs {
				u, ok := in.(*ssa.UnOp)
				if !ok {
					continue
				}
				g, ok := u.X.(*ssa.Global)
				if !ok {
					continue
				}
				name, isFlag := bound[g]
				if !isFlag {
					continue
				}
				if f == mainFn {
					if !after(b, i) {
						reads[f] = append(reads[f], fmt.Sprintf("-%s (%s) is read at %s before flag.Parse()", name, g.Name(), p.Pos(u.Pos())))
					}
				} else {
					reads[f] = append(reads[f], g.Name())
				}
			}
		}
	}
	var bad []string
	bad = append(bad, reads[mainFn]...)
	nSites := 0
	// call / go / defer sites in main of functions that read flags (closures: where they are created)
	readers := map[*ssa.Function]bool{}
	for f := range reads {
		if f != mainFn {
			readers[f] = true
		}
	}
	// a function calling a reader is a reader (within the package)
	for changed := true; changed; {
		changed = false
		for _, f := range fns {
			if readers[f] || f == mainFn {
				continue
			}
			for _, b := range f.Blocks {
				for _, in := range b.Instrs {
					if call, ok := in.(ssa.CallInstruction); ok {
						if cal := call.Common().StaticCallee(); cal != nil && readers[cal] {
							readers[f] = true
							changed = true
						}
					}
				}
			}
		}
	}
	for _, b := range mainFn.Blocks {
		for i, in := range b.Instrs {
			var callee *ssa.Function
			switch t := in.(type) {
			case ssa.CallInstruction:
				callee = t.Common().StaticCallee()
			case *ssa.MakeClosure:
				callee, _ = t.Fn.(*ssa.Function)
			}
			if callee == nil || !readers[callee] || parses[callee] {
				continue
			}
			nSites++
			if !after(b, i) {
				bad = append(bad, fmt.Sprintf("%s, which reads command-line variables, is invoked at %s before flag.Parse()", callee.Name(), p.Pos(in.Pos())))
			}
		}
	}
	sort.Strings(bad)
	var names []string
	for _, n := range bound {
		names = append(names, "-"+n)
	}
	sort.Strings(names)
	c.Expect(len(bad) == 0 && len(bound) > 0, "R-FLAG-ORDER", key, where,
		fmt.Sprintf("every read of the command-line variables (%s) in main, and every use in main of the %d functions that read them, follows flag.Parse()", strings.Join(names, " "), nSites),
		strings.Join(bad, "; "))
}

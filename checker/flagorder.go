package main

// R-FLAG-ORDER: a command-line variable holds its default until flag.Parse() has run. Every read of a variable bound
// by flag.XxxVar must therefore come after the parse: in main, the read is dominated by the call that parses (directly
// or through a helper); in any other function of the package, every call / go site of it in main is.

import (
	"fmt"
	"sort"
	"strings"

	"golang.org/x/tools/go/ssa"
)

func checkFlagOrder(c *Check, p *Prog, pkg, key string) {
	sp := p.SPkgs[pkg]
	if sp == nil {
		c.Fail("R-FLAG-ORDER", key, "-", "package not loaded")
		return
	}
	mainFn := sp.Func("main")
	if mainFn == nil {
		c.Fail("R-FLAG-ORDER", key, "-", "main not found")
		return
	}
	var fns []*ssa.Function
	var add func(f *ssa.Function)
	seen := map[*ssa.Function]bool{}
	add = func(f *ssa.Function) {
		if f == nil || seen[f] || f.Blocks == nil {
			return
		}
		seen[f] = true
		fns = append(fns, f)
		for _, a := range f.AnonFuncs {
			add(a)
		}
	}
	for _, m := range sp.Members {
		if f, ok := m.(*ssa.Function); ok {
			add(f)
		}
	}
	// flag-bound variables: a package-level variable, or a field of one (key: variable + field index, -1 for the whole)
	type vkey struct {
		g *ssa.Global
		f int
	}
	bound := map[vkey]string{}
	var custom []string
	keyOf := func(v ssa.Value) (vkey, bool) {
		switch t := v.(type) {
		case *ssa.Global:
			return vkey{t, -1}, true
		case *ssa.FieldAddr:
			if g, ok := t.X.(*ssa.Global); ok {
				return vkey{g, t.Field}, true
			}
		}
		return vkey{}, false
	}
	for _, f := range fns {
		for _, b := range f.Blocks {
			for _, in := range b.Instrs {
				call, ok := in.(ssa.CallInstruction)
				if !ok {
					continue
				}
				cal := call.Common().StaticCallee()
				if cal == nil || cal.Pkg == nil || cal.Pkg.Pkg.Path() != "flag" || !strings.HasSuffix(cal.Name(), "Var") || len(call.Common().Args) < 2 {
					continue
				}
				if cal.Name() == "Var" {
					// flag.Var / (*FlagSet).Var: the value is parsed by a user-defined Set method
					custom = append(custom, p.Pos(in.Pos()))
					continue
				}
				if k0, ok := keyOf(call.Common().Args[0]); ok {
					name := ""
					if k, ok := call.Common().Args[1].(*ssa.Const); ok {
						name = strings.Trim(k.Value.ExactString(), `"`)
					}
					bound[k0] = name
				}
			}
		}
	}
	// which functions parse (transitively, inside the package)
	parses := map[*ssa.Function]bool{}
	for changed := true; changed; {
		changed = false
		for _, f := range fns {
			if parses[f] {
				continue
			}
			for _, b := range f.Blocks {
				for _, in := range b.Instrs {
					if call, ok := in.(*ssa.Call); ok {
						if cal := call.Common().StaticCallee(); cal != nil {
							if (cal.Pkg != nil && cal.Pkg.Pkg.Path() == "flag" && cal.Name() == "Parse") || parses[cal] {
								parses[f] = true
								changed = true
							}
						}
					}
				}
			}
		}
	}
	// the parse point in main
	var pb *ssa.BasicBlock
	pi := -1
	for _, b := range mainFn.Blocks {
		for i, in := range b.Instrs {
			if call, ok := in.(*ssa.Call); ok && pb == nil {
				if cal := call.Common().StaticCallee(); cal != nil && ((cal.Pkg != nil && cal.Pkg.Pkg.Path() == "flag" && cal.Name() == "Parse") || parses[cal]) {
					pb, pi = b, i
				}
			}
		}
	}
	where := p.Pos(mainFn.Pos())
	if pb == nil {
		c.Fail("R-FLAG-ORDER", key, where, "main never calls flag.Parse()")
		return
	}
	after := func(b *ssa.BasicBlock, i int) bool {
		if b == pb {
			return i > pi
		}
		return pb.Dominates(b)
	}
	// which functions read a flag-bound global (registration and the parsing helpers themselves excluded)
	reads := map[*ssa.Function][]string{}
	for _, f := range fns {
		if f.Name() == "init" || strings.HasPrefix(f.Name(), "init#") {
			continue
		}
		for _, b := range f.Blocks {
			for i, in := range b.Instrs {
				u, ok := in.(*ssa.UnOp)
				if !ok {
					continue
				}
				k0, ok := keyOf(u.X)
				if !ok {
					continue
				}
				g := k0.g
				name, isFlag := bound[k0]
				if !isFlag && k0.f == -1 {
					// the whole struct is read (passed by value): counts as a read of each flag field in it
					for bk, bn := range bound {
						if bk.g == g && bk.f >= 0 {
							name, isFlag = bn, true
						}
					}
				}
				if !isFlag {
					continue
				}
				if f == mainFn {
					if !after(b, i) {
						reads[f] = append(reads[f], fmt.Sprintf("-%s (%s) is read at %s before flag.Parse()", name, g.Name(), p.Pos(u.Pos())))
					}
				} else {
					reads[f] = append(reads[f], g.Name())
				}
			}
		}
	}
	var bad []string
	bad = append(bad, reads[mainFn]...)
	nSites := 0
	// call / go / defer sites in main of functions that read flags (closures: where they are created)
	readers := map[*ssa.Function]bool{}
	for f := range reads {
		if f != mainFn {
			readers[f] = true
		}
	}
	// a function calling a reader is a reader (within the package)
	for changed := true; changed; {
		changed = false
		for _, f := range fns {
			if readers[f] || f == mainFn {
				continue
			}
			for _, b := range f.Blocks {
				for _, in := range b.Instrs {
					if call, ok := in.(ssa.CallInstruction); ok {
						if cal := call.Common().StaticCallee(); cal != nil && readers[cal] {
							readers[f] = true
							changed = true
						}
					}
				}
			}
		}
	}
	for _, b := range mainFn.Blocks {
		for i, in := range b.Instrs {
			var callee *ssa.Function
			switch t := in.(type) {
			case ssa.CallInstruction:
				callee = t.Common().StaticCallee()
			case *ssa.MakeClosure:
				callee, _ = t.Fn.(*ssa.Function)
			}
			if callee == nil || !readers[callee] || parses[callee] {
				continue
			}
			nSites++
			if !after(b, i) {
				bad = append(bad, fmt.Sprintf("%s, which reads command-line variables, is invoked at %s before flag.Parse()", callee.Name(), p.Pos(in.Pos())))
			}
		}
	}
	sort.Strings(bad)
	var names []string
	for _, n := range bound {
		names = append(names, "-"+n)
	}
	sort.Strings(names)
	// R-FLAG-BIND: what the user typed is what the pipeline reads only for the typed binders of package flag (IntVar,
	// StringVar, BoolVar ...), whose parsing is the standard library's. A custom flag.Value registered with flag.Var
	// parses (clamps, rewrites) in user code that no rule here follows.
	if len(custom) == 0 {
		c.Ok("R-FLAG-BIND", key, where, "every command-line variable (%s) is bound by a typed binder of package flag; no custom flag.Value", strings.Join(names, " "))
	} else {
		c.Undecided("R-FLAG-BIND", key, where, "a flag is registered with flag.Var at %s: its value is produced by a user-defined Set method (it may clamp or rewrite what was typed, e.g. to zero workers) that the flag rules do not analyse", strings.Join(custom, ", "))
	}
	c.Expect(len(bad) == 0 && len(bound) > 0, "R-FLAG-ORDER", key, where,
		fmt.Sprintf("every read of the command-line variables (%s) in main, and every use in main of the %d functions that read them, follows flag.Parse()", strings.Join(names, " "), nSites),
		strings.Join(bad, "; "))
}

package main

import (
	"fmt"
	"go/types"
	"math/big"
	"strings"

	"golang.org/x/tools/go/ssa"
)

// coreFuncs: the functions that carry a test's computation; every other entry point must forward to one of them.
var coreFuncs = map[string]bool{
	"MonoBitFrequencyTestBytes": true, "MonoBitFrequencyTest": true, "FrequencyWithinBlockProto": true,
	"PokerTestBytes": true, "PokerProto": true, "OverlappingTemplateMatchingProto": true, "RunsTest": true,
	"RunsDistributionTest": true, "LongestRunOfOnesInABlockProto": true, "BinaryDerivativeProto": true,
	"AutocorrelationProto": true, "MatrixRankProto": true, "CumulativeTest": true, "ApproximateEntropyProto": true,
	"LinearComplexityProto": true, "MaurerUniversalTest": true, "DiscreteFourierTransformTest": true,
	"B2bitArr": true, "selectM": true,
}

func wrapperConfig(self *ssa.Function) Config {
	return Config{Opaque: func(f *ssa.Function) (bool, bool) {
		if f == self || f.Pkg == nil || f.Pkg.Pkg.Path() != pkgRoot {
			return false, false
		}
		if coreFuncs[f.Name()] {
			return true, true
		}
		return false, false
	}}
}

// wrapperSpec: the wrapper must be exactly Core(args...) with args in the mini-language:
// "P<i>" parameter i, "B" = B2bitArr(P0), "selectM" = selectM(len(data argument)), "i:<n>" integer, "b:true|false".
type wrapperSpec struct {
	Name  string
	Core  string
	Args  []string
	NRes  int
}

func buildArg(S *Store, spec string, params []*Term, data *Term) *Term {
	switch {
	case spec == "B":
		return S.mkOp("call:"+pkgRoot+".B2bitArr", TRef, params[0])
	case spec == "selectM":
		return S.mkOp("call:"+pkgRoot+".selectM", TInt, S.Op("len", TInt, data))
	case strings.HasPrefix(spec, "P"):
		var i int
		fmt.Sscanf(spec, "P%d", &i)
		if i < len(params) {
			return params[i]
		}
	case strings.HasPrefix(spec, "i:"):
		var n int64
		fmt.Sscanf(spec, "i:%d", &n)
		return S.Int(n)
	case spec == "b:true":
		return S.True
	case spec == "b:false":
		return S.False
	}
	return nil
}

// wrapperCall summarises fn and returns the single pure core call its results are built from.
func wrapperCall(p *Prog, fn *ssa.Function) (*Ext, *Summary, string) {
	x := NewExt(p, NewStore(), wrapperConfig(fn))
	sum := x.Summarize(fn, nil, nil)
	if len(sum.Undecided) > 0 {
		return x, sum, strings.Join(sum.Undecided, "; ")
	}
	return x, sum, ""
}

func checkWrapper(c *Check, p *Prog, rule, key string, ws wrapperSpec) bool {
	fn := p.Func(pkgRoot, ws.Name)
	if fn == nil {
		c.Fail(rule, key, "-", "function %s not found", ws.Name)
		return false
	}
	x, sum, und := wrapperCall(p, fn)
	where := p.Pos(fn.Pos())
	if und != "" {
		c.Undecided(rule, key, where, "%s", und)
		return false
	}
	S := x.S
	var data *Term
	if len(ws.Args) > 0 {
		data = buildArg(S, ws.Args[0], sum.Params, nil)
	}
	var args []*Term
	for _, a := range ws.Args {
		t := buildArg(S, a, sum.Params, data)
		if t == nil {
			c.Fail(rule, key, where, "bad spec %s", a)
			return false
		}
		args = append(args, t)
	}
	want := S.mkOp("call:"+pkgRoot+"."+ws.Core, TTuple, args...)
	// no effects other than the return (and validation panics)
	var other []string
	sum.Top.Events(func(e *Event, _ []*LoopS) {
		if e.Kind != "return" && e.Kind != "panic" {
			other = append(other, e.String(p))
		}
	})
	okRet := false
	var got string
	for _, r := range sum.Rets {
		if r.Dead {
			continue
		}
		if len(r.Rets) != ws.NRes {
			continue
		}
		all := true
		for i, v := range r.Rets {
			if v != S.mkOp(fmt.Sprintf("extract%d", i), TFloat, want) {
				all = false
				got = trunc(v.String(), 160)
			}
		}
		okRet = all
	}
	c.Expect(okRet && len(other) == 0, rule, key, where,
		fmt.Sprintf("%s is exactly %s(%s) with results forwarded in order", ws.Name, ws.Core, strings.Join(ws.Args, ", ")),
		fmt.Sprintf("%s is not %s(%s) with results in order (result %s; other effects %v)", ws.Name, ws.Core, strings.Join(ws.Args, ", "), got, other))
	return okRet
}

var wrapperSpecs = []wrapperSpec{
	{"FrequencyWithinBlockTest", "FrequencyWithinBlockProto", []string{"P0", "selectM"}, 2},
	{"FrequencyWithinBlockTestBytes", "FrequencyWithinBlockProto", []string{"B", "P1"}, 2},
	{"PokerTest", "PokerProto", []string{"P0", "i:8"}, 2},
	{"OverlappingTemplateMatchingTest", "OverlappingTemplateMatchingProto", []string{"P0", "i:5"}, 4},
	{"OverlappingTemplateMatchingTestBytes", "OverlappingTemplateMatchingProto", []string{"B", "P1"}, 4},
	{"RunsTestBytes", "RunsTest", []string{"B"}, 2},
	{"RunsDistributionTestBytes", "RunsDistributionTest", []string{"B"}, 2},
	{"LongestRunOfOnesInABlockTest", "LongestRunOfOnesInABlockProto", []string{"P0", "P1"}, 2},
	{"LongestRunOfOnesInABlockTestBytes", "LongestRunOfOnesInABlockProto", []string{"B", "P1"}, 2},
	{"BinaryDerivativeTest", "BinaryDerivativeProto", []string{"P0", "P1"}, 2},
	{"BinaryDerivativeTestBytes", "BinaryDerivativeProto", []string{"B", "P1"}, 2},
	{"AutocorrelationTest", "AutocorrelationProto", []string{"P0", "P1"}, 2},
	{"AutocorrelationTestBytes", "AutocorrelationProto", []string{"B", "P1"}, 2},
	{"MatrixRankTest", "MatrixRankProto", []string{"P0", "i:32", "i:32"}, 2},
	{"MatrixRankTestBytes", "MatrixRankProto", []string{"B", "P1", "P2"}, 2},
	{"CumulativeTestBytes", "CumulativeTest", []string{"B", "P1"}, 2},
	{"ApproximateEntropyTest", "ApproximateEntropyProto", []string{"P0", "i:5"}, 2},
	{"ApproximateEntropyTestBytes", "ApproximateEntropyProto", []string{"B", "P1"}, 2},
	{"LinearComplexityTest", "LinearComplexityProto", []string{"P0", "i:500"}, 2},
	{"LinearComplexityTestBytes", "LinearComplexityProto", []string{"B", "P1"}, 2},
	{"MaurerUniversalTestBytes", "MaurerUniversalTest", []string{"B"}, 2},
	{"DiscreteFourierTransformTestBytes", "DiscreteFourierTransformTest", []string{"B"}, 2},
}

// runnerSpecs: registry order, runner function, core call with the standard's 10^6-bit defaults.
var runnerSpecs = []wrapperSpec{
	{"MonoBitFrequency", "MonoBitFrequencyTestBytes", []string{"P0"}, 2},
	{"FrequencyWithinBlock", "FrequencyWithinBlockProto", []string{"B", "selectM"}, 2},
	{"Poker", "PokerTestBytes", []string{"P0", "i:8"}, 2},
	{"OverlappingTemplateMatching", "OverlappingTemplateMatchingProto", []string{"B", "i:5"}, 4},
	{"Runs", "RunsTest", []string{"B"}, 2},
	{"RunsDistribution", "RunsDistributionTest", []string{"B"}, 2},
	{"LongestRunOfOnesInABlock", "LongestRunOfOnesInABlockProto", []string{"B", "b:true"}, 2},
	{"BinaryDerivative", "BinaryDerivativeProto", []string{"B", "i:7"}, 2},
	{"Autocorrelation", "AutocorrelationProto", []string{"B", "i:16"}, 2},
	{"MatrixRank", "MatrixRankProto", []string{"B", "i:32", "i:32"}, 2},
	{"Cumulative", "CumulativeTest", []string{"B", "b:true"}, 2},
	{"ApproximateEntropy", "ApproximateEntropyProto", []string{"B", "i:5"}, 2},
	{"LinearComplexity", "LinearComplexityProto", []string{"B", "i:500"}, 2},
	{"MaurerUniversal", "MaurerUniversalTest", []string{"B"}, 2},
	{"DiscreteFourierTransform", "DiscreteFourierTransformTest", []string{"B"}, 2},
}

// checkRunner verifies one registry runner: core call with defaults, result fields in slot order, Pass rule.
// ruleCall / rulePass name the obligations (C15 uses both, C16 only the Pass rule).
func checkRunner(c *Check, p *Prog, ws wrapperSpec, ruleCall, rulePass string) {
	fn := p.Func(pkgRoot, ws.Name)
	if fn == nil {
		c.Fail("R-ANCHOR", ws.Name, "-", "runner not found")
		return
	}
	x, sum, und := wrapperCall(p, fn)
	where := p.Pos(fn.Pos())
	if und != "" {
		c.Undecided("R-EXTRACT", ws.Name, where, "%s", und)
		return
	}
	S := x.S
	data := buildArg(S, ws.Args[0], sum.Params, nil)
	var args []*Term
	for _, a := range ws.Args {
		args = append(args, buildArg(S, a, sum.Params, data))
	}
	want := S.mkOp("call:"+pkgRoot+"."+ws.Core, TTuple, args...)
	ex := func(i int) *Term { return S.mkOp(fmt.Sprintf("extract%d", i), TFloat, want) }
	// the returned object
	var obj *Term
	for _, r := range sum.Rets {
		if !r.Dead && len(r.Rets) == 1 {
			obj = r.Rets[0]
		}
	}
	fields := map[string]*Term{}
	var other []string
	sum.Top.Events(func(e *Event, _ []*LoopS) {
		switch e.Kind {
		case "store":
			if e.Root == obj && len(e.Path) == 1 && e.Guard == S.True {
				f, _ := e.Path[0].StrVal()
				fields[f] = e.Val
			} else {
				other = append(other, e.String(p))
			}
		case "alloc", "return", "panic":
		default:
			other = append(other, e.String(p))
		}
	})
	wantFields := map[string]*Term{".P": ex(0), ".Q": ex(1)}
	if ws.NRes == 4 {
		wantFields = map[string]*Term{".P": ex(0), ".P2": ex(1), ".Q": ex(2), ".Q2": ex(3)}
	}
	if ruleCall != "" {
		var bad []string
		for f, w := range wantFields {
			if fields[f] != w {
				bad = append(bad, fmt.Sprintf("%s = %v", f[1:], trunc(fmt.Sprint(fields[f]), 120)))
			}
		}
		for _, f := range []string{".P2", ".Q2"} {
			if ws.NRes == 2 && fields[f] != nil {
				bad = append(bad, "unexpected "+f[1:])
			}
		}
		bad = append(bad, other...)
		c.Expect(len(bad) == 0 && obj != nil, ruleCall, ws.Name, where,
			fmt.Sprintf("runner = %s(%s); P/Q%s taken from that call's results in slot order", ws.Core, strings.Join(ws.Args, ", "), map[int]string{2: "", 4: "/P2/Q2"}[ws.NRes]),
			fmt.Sprintf("runner is not %s(%s) with results in slot order: %s", ws.Core, strings.Join(ws.Args, ", "), strings.Join(bad, "; ")))
	}
	if rulePass != "" {
		alpha, _ := constFloat(p, pkgRoot, "Alpha")
		pterm := fields[".P"]
		var wantPass []*Term
		if pterm != nil {
			if ws.NRes == 4 && fields[".P2"] != nil {
				wantPass = append(wantPass, S.Cmp(">=", S.mkOp("call:math.Min", TFloat, fields[".P"], fields[".P2"]), S.Float(alpha)))
				wantPass = append(wantPass, S.Cmp(">=", S.mkOp("call:math.Min", TFloat, fields[".P2"], fields[".P"]), S.Float(alpha)))
				wantPass = append(wantPass, S.And(S.Cmp(">=", fields[".P"], S.Float(alpha)), S.Cmp(">=", fields[".P2"], S.Float(alpha))))
			} else {
				wantPass = append(wantPass, S.Cmp(">=", pterm, S.Float(alpha)))
			}
		}
		okp := false
		for _, w := range wantPass {
			if fields[".Pass"] == w || (fields[".Pass"] != nil && S.Canon(fields[".Pass"]) == S.Canon(w)) {
				okp = true
			}
		}
		c.Expect(okp && alpha == 0.01, rulePass, ws.Name, where,
			map[int]string{2: "Pass = (P >= Alpha) on the value stored in P", 4: "Pass = (min(P, P2) >= Alpha) on the values stored in P and P2"}[ws.NRes],
			fmt.Sprintf("Pass is %v, not P >= Alpha(0.01) on the stored P-value", trunc(fmt.Sprint(fields[".Pass"]), 200)))
	}
}

func ruleC15(c *Check, p *Prog) {
	c.Explanation = "Decides that all entry points of a test execute the same function on the same bits: R-REGISTRY TestMethodArr is a literal of exactly 15 items whose runners are, in the standard's numbering, MonoBitFrequency ... DiscreteFourierTransform, and no function writes it; " +
		"R-RUNNER each runner is one call of the test's core function on the data (bytes, or B2bitArr(data)) with the standard's 10^6-bit defaults (poker 8, overlapping 5, longest run of ones, derivative 7, autocorrelation 16, 32x32, forward, entropy 5, complexity 500, selectM(len) for block frequency) and copies the results in slot order; " +
		"R-FORWARD every *TestBytes / default-parameter wrapper is exactly Core(B2bitArr(data) | bits, parameters forwarded in order) => bit-identical by construction; " +
		"R-MSB B2bit/B2bitArr/B2Byte/ReadGroup equal their MSB-first reference formulations; R-FASTPATH the byte fast paths (monobit popcount, poker nibble/byte histograms) equal byte-level references whose tails are compared BIT-EXACTLY (float64 equality) and are the same tail as the bit paths' references " +
		"(lemmas: sum of +-1 over a byte = 2 popcount - 8; the 8-bit pattern of b is b, its 4-bit patterns b>>4 then b&15); R-ROUND Round15 stores Runner(data) of every registry element i at results[i] (15 slots), Round12 does the same over TestMethodArr[:12] (12 slots)."
	c.Floor("R-RUNNER", 15)
	c.Floor("R-FORWARD", 22)
	checkRegistry(c, p)
	for _, rs := range runnerSpecs {
		checkRunner(c, p, rs, "R-RUNNER", "")
	}
	for _, ws := range wrapperSpecs {
		checkWrapper(c, p, "R-FORWARD", ws.Name, ws)
	}
	// R-MSB
	checkEquiv(c, p, "R-MSB", "B2bit", eqSpec{Pkg: pkgRoot, Name: "B2bit", RefName: "B2bit", Dom: map[string]Domain{"param:0": {Lo: 0, Hi: 255}}}, "masks 0x80..0x01 in order")
	checkEquiv(c, p, "R-MSB", "B2bitArr", eqSpec{Pkg: pkgRoot, Name: "B2bitArr", RefName: "B2bitArr", Inline: map[string]bool{pkgRoot + ".B2bitArr": true}}, "append B2bit(b) for every byte in order")
	checkEquiv(c, p, "R-MSB", "B2Byte", eqSpec{Pkg: pkgRoot, Name: "B2Byte", RefName: "B2Byte"}, "left-shift accumulate, first bit most significant")
	checkEquiv(c, p, "R-MSB", "ReadGroup", eqSpec{Pkg: pkgRoot, Name: "ReadGroup", RefName: "ReadGroup"}, "bits of the file's bytes, MSB first, in order")
	// R-FASTPATH (bit-exact tails)
	checkEquiv(c, p, "R-FASTPATH", "MonoBitFrequencyTestBytes", eqSpec{Pkg: pkgRoot, Name: "MonoBitFrequencyTestBytes", RefName: "MonoBitFrequencyTestBytes", Dom: domLen(16, 5000)}, "byte form vs reference byte form")
	checkEquiv(c, p, "R-FASTPATH", "PokerTestBytes", eqSpec{Pkg: pkgRoot, Name: "PokerTestBytes", RefName: "PokerTestBytes", Dom: withParam(domLen(16, 5000), 1, 2, 9), Exact: true}, "byte form vs reference byte form, float64-exact tail")
	checkEquiv(c, p, "R-FASTPATH", "PokerProto", eqSpec{Pkg: pkgRoot, Name: "PokerProto", RefName: "PokerProto", Dom: withParam(domLen(100, 5000), 1, 2, 9), Exact: true}, "bit form vs reference with the same tail, float64-exact")
	checkFastTailsIdentical(c, p)
	// R-ROUND
	checkRound(c, p, "Round15", 15, false)
	checkRound(c, p, "Round12", 12, true)
}

// checkFastTailsIdentical: the monobit byte and bit paths map (S, n) to (P, Q) through the very same expression.
func checkFastTailsIdentical(c *Check, p *Prog) {
	fa, fb := p.Func(pkgRoot, "MonoBitFrequencyTestBytes"), p.Func(pkgRoot, "MonoBitFrequencyTest")
	if fa == nil || fb == nil {
		c.Fail("R-FASTPATH", "monobit-tail", "-", "functions not found")
		return
	}
	S := NewStore()
	xa := NewExt(p, S, Config{})
	xb := NewExt(p, S, Config{})
	sa, sb := xa.Summarize(fa, nil, nil), xb.Summarize(fb, nil, nil)
	tail := func(sum *Summary) ([]*Term, *Symbol, *Term) {
		var rets []*Term
		for _, r := range sum.Rets {
			if !r.Dead {
				rets = r.Rets
			}
		}
		var fin *Symbol
		sum.Top.AllLoops(func(l *LoopS) {
			for _, cv := range nonAffine(l) {
				fin = cv.Fin
			}
		})
		return rets, fin, sum.Params[0]
	}
	ra, fina, pa := tail(sa)
	rb, finb, pb := tail(sb)
	ok := len(ra) == 2 && len(rb) == 2 && fina != nil && finb != nil
	// the integer statistic each side converts to float64 (S itself, or 2*ones-n, ...): the argument of the
	// int->float conversion that depends on the loop's final counter
	statOf := func(rets []*Term, fin *Symbol) *Term {
		var st *Term
		for _, r := range rets {
			Walk(r, map[*Term]bool{}, func(x *Term) {
				if x.K == KOp && x.Op == "i2f" && DependsOn(x.Args[0], func(s *Symbol) bool { return s == fin }) {
					if st == nil || st == x.Args[0] {
						st = x.Args[0]
					} else {
						ok = false
					}
				}
			})
		}
		return st
	}
	var xA, xB *Term
	if ok {
		xA, xB = statOf(ra, fina), statOf(rb, finb)
		ok = xA != nil && xB != nil
	}
	if ok {
		// 8*len(data) plays the role of len(bits); the counters are set so that both statistics take the same value
		nA := S.MulC(S.Op("len", TInt, pa), bigInt(8))
		nB := S.Op("len", TInt, pb)
		e := NewEnv(7)
		done := 0
		for k := 0; k < 64 && ok; k++ {
			n := int64(8 * (1 + h64("n", k)%5000))
			e.Dom["len:"+e.canonOf(pa.Sym)] = Domain{Lo: n / 8, Hi: n / 8}
			e.Dom["len:"+e.canonOf(pb.Sym)] = Domain{Lo: n, Hi: n}
			at := func(fin *Symbol, v int64, t *Term) Val {
				e.Reset(h64("tail", k))
				e.Over[fin] = Val{K: TInt, I: v}
				return e.Eval(t)
			}
			// both statistics are affine in their counter: x = p*fin + q
			qA, qB := at(fina, 0, xA).I, at(finb, 0, xB).I
			pA, pB := at(fina, 1, xA).I-qA, at(finb, 1, xB).I-qB
			if pA == 0 || pB == 0 || at(fina, 5, xA).I != 5*pA+qA || at(finb, 5, xB).I != 5*pB+qB {
				ok = false
				break
			}
			s := int64(h64("s", k)%uint64(2*n+1)) - n
			if (s-qA)%pA != 0 || (s-qB)%pB != 0 {
				s++
			}
			if (s-qA)%pA != 0 || (s-qB)%pB != 0 {
				continue
			}
			fa, fb := (s-qA)/pA, (s-qB)/pB
			if at(fina, fa, nA).I != at(finb, fb, nB).I {
				ok = false
			}
			for i := 0; i < 2 && ok; i++ {
				va, vb := at(fina, fa, ra[i]), at(finb, fb, rb[i])
				if va.F != vb.F {
					ok = false
				}
			}
			done++
		}
		if done < 16 {
			ok = false
		}
	}
	c.Expect(ok, "R-FASTPATH", "monobit-tail", p.Pos(fa.Pos()), "the byte and bit forms map (S, n) to (P, Q) through the same float64 expression (bit-identical at >=16 sampled (S,n), whatever counter each loop keeps)", "the byte-form tail differs from the bit-form tail in floating point")
}

func checkRound(c *Check, p *Prog, name string, n int64, sliced bool) {
	fn := p.Func(pkgDetect, name)
	if fn == nil {
		c.Fail("R-ROUND", name, "-", "not found")
		return
	}
	x := NewExt(p, NewStore(), Config{Opaque: opaquePkgs([]string{pkgRoot, pkgFFT}, false, nil)})
	sum := x.Summarize(fn, nil, nil)
	S := x.S
	where := p.Pos(fn.Pos())
	if len(sum.Undecided) > 0 {
		c.Undecided("R-ROUND", name, where, "%s", strings.Join(sum.Undecided, "; "))
		return
	}
	data := sum.Params[0]
	g := x.globalSym(p.Global(pkgRoot, "TestMethodArr"))
	var probs []string
	// result
	var res *Term
	for _, r := range sum.Rets {
		if !r.Dead && len(r.Rets) == 1 {
			res = r.Rets[0]
		}
	}
	root, off, ln, ok := isSliceOf(res)
	if !ok || !isZero(off) {
		probs = append(probs, "result is not a whole fresh slice")
	} else if v, isC := intOf(ln); !(isC && v == n) {
		// sized from the registry itself: len(TestMethodArr) is the registry's 15 entries (R-REGISTRY: literal of 15, never written)
		regLen := S.Op("len", TInt, S.mkOp("at", TRef, g))
		if !(ln == regLen && !sliced && n == 15) {
			probs = append(probs, fmt.Sprintf("result has %v slots, expected %d", ln, n))
		}
	}
	var loop *LoopS
	nl := 0
	sum.Top.AllLoops(func(l *LoopS) { loop = l; nl++ })
	if nl != 1 {
		probs = append(probs, fmt.Sprintf("%d loops", nl))
	} else {
		it := iterTerm(S, loop)
		wantTrip := S.Op("max0", TInt, S.Op("len", TInt, S.mkOp("at", TRef, g)))
		if sliced {
			wantTrip = S.Int(n)
		}
		if loop.Trip != wantTrip {
			probs = append(probs, fmt.Sprintf("loop runs %v times, expected %v", loop.Trip, wantTrip))
		}
		var call, store *Event
		loop.Body.Events(func(e *Event, _ []*LoopS) {
			if e.Kind == "call" && e.Callee == "dynamic" {
				call = e
			}
			if e.Kind == "store" && e.Root == root {
				store = e
			}
		})
		runner := S.mkOp("ld", TRef, g, it, fieldMarker(S, "Runner"))
		if call == nil || len(call.Args) != 1 || call.Args[0] != data || !isRunnerOf(S, call.FnTerm, runner, g, it) {
			probs = append(probs, "the loop does not call TestMethodArr[i].Runner(data)")
		} else if store == nil || len(store.Path) != 1 || store.Path[0] != it || store.Val != S.SymTerm(call.Res) {
			probs = append(probs, "the result of item i is not stored at results[i]")
		}
	}
	if !sliced {
		if l := p.GlobalLit(pkgRoot, "TestMethodArr"); l == nil || int64(len(l.Elems)) != n {
			probs = append(probs, "registry length differs from the result length")
		}
	}
	c.Expect(len(probs) == 0, "R-ROUND", name, where, fmt.Sprintf("results[i] = TestMethodArr[i].Runner(data) for i = 0..%d, %d result slots", n-1, n), strings.Join(probs, "; "))
}

// isRunnerOf: fnTerm denotes the Runner field of registry element i (directly or through a copied element).
func isRunnerOf(S *Store, fnTerm, runner, g, it *Term) bool {
	if fnTerm == nil {
		return false
	}
	if fnTerm == runner {
		return true
	}
	// ld(at(TestMethodArr), i, ".Runner") or through slice offset 0
	if fnTerm.Op == "ld" && len(fnTerm.Args) >= 3 {
		last := fnTerm.Args[len(fnTerm.Args)-1]
		if f, _ := last.StrVal(); f == ".Runner" && fnTerm.Args[0] == g && fnTerm.Args[len(fnTerm.Args)-2] == it {
			return true
		}
	}
	return false
}

func bigInt(v int64) *big.Int { return big.NewInt(v) }

var _ = types.Typ

func checkRegistry(c *Check, p *Prog) {
	// R-REGISTRY
	l := p.GlobalLit(pkgRoot, "TestMethodArr")
	var regBad []string
	if l == nil || len(l.Elems) != 15 {
		regBad = append(regBad, "TestMethodArr is not a literal of 15 items")
	} else {
		for i, e := range l.Elems {
			r := e.Fields["Runner"]
			nm, _ := e.Fields["Name"].Str()
			if r == nil || r.Obj == nil || r.Obj.Name() != runnerSpecs[i].Name || r.Obj.Pkg().Path() != pkgRoot {
				got := "?"
				if r != nil && r.Obj != nil {
					got = r.Obj.Name()
				}
				regBad = append(regBad, fmt.Sprintf("item %d runs %s, the standard's item %d is %s", i+1, got, i+1, runnerSpecs[i].Name))
			}
			if nm == "" {
				regBad = append(regBad, fmt.Sprintf("item %d has no name", i+1))
			}
		}
	}
	_, gw := globalWrites(p, []string{pkgRoot, pkgFFT, pkgDetect, pkgDet, pkgGen})
	for _, g := range gw {
		if strings.Contains(g, "TestMethodArr") {
			regBad = append(regBad, g)
		}
	}
	c.Expect(len(regBad) == 0, "R-REGISTRY", "TestMethodArr", "structs.go:30", "15 items, runners in the standard's order, never written", strings.Join(regBad, "; "))
}

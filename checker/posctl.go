package main

import (
	"fmt"
	"go/ast"
	"go/importer"
	"go/parser"
	"go/token"
	"go/types"

	"golang.org/x/tools/go/ssa"
	"golang.org/x/tools/go/ssa/ssautil"
)

// rawReads lists invocations of io.Reader.Read in the given functions.
func rawReadsIn(fns []*ssa.Function, pos func(token.Pos) string) (sites []string, calls int) {
	for _, fn := range fns {
		for _, b := range fn.Blocks {
			for _, in := range b.Instrs {
				if ci, ok := in.(ssa.CallInstruction); ok {
					calls++
					cc := ci.Common()
					if cc.IsInvoke() && cc.Method.Name() == "Read" {
						sites = append(sites, fmt.Sprintf("%s in %s", pos(in.Pos()), fn.Name()))
					}
				}
			}
		}
	}
	return
}

// buildSnippet type-checks a tiny package from source text and returns its SSA functions (positive controls).
func buildSnippet(src string) ([]*ssa.Function, error) {
	fset := token.NewFileSet()
	f, err := parser.ParseFile(fset, "posctl.go", src, 0)
	if err != nil {
		return nil, err
	}
	pkg := types.NewPackage("posctl", "posctl")
	sp, _, err := ssautil.BuildPackage(&types.Config{Importer: importer.ForCompiler(fset, "source", nil)}, fset, pkg, []*ast.File{f}, ssa.InstantiateGenerics)
	if err != nil {
		return nil, err
	}
	var fns []*ssa.Function
	for _, m := range sp.Members {
		if fn, ok := m.(*ssa.Function); ok && fn.Blocks != nil && fn.Name() != "init" {
			fns = append(fns, fn)
		}
	}
	return fns, nil
}

// rawReadPositiveControl: the zero-count rule "no raw Read" must match a tiny positive example on every run.
func rawReadPositiveControl() string {
	fns, err := buildSnippet(`package posctl
import "io"
func f(r io.Reader, b []byte) { r.Read(b) }
`)
	if err != nil {
		panic("positive control does not build: " + err.Error())
	}
	sites, _ := rawReadsIn(fns, func(token.Pos) string { return "posctl.go" })
	if len(sites) != 1 {
		panic("positive control for the raw-Read rule did not match")
	}
	return "raw-Read rule matched its positive control (1 site in a synthetic package)"
}

package ref

import "math"

// ---- 10. matrix rank: N = n/(M*Q) matrices filled row-major from consecutive bits; F_M, F_{M-1}, rest;
// V = sum (F - N p)^2/(N p) with p = 0.2888, 0.5776, 0.1336; P = Q = igamc(1, V/2).

func MatrixRankProto(x []bool, M, Q int) (float64, float64) {
	n := len(x)
	N := n / (M * Q)
	full, full1, rest := 0, 0, 0
	matrix := make([][]int, 32)
	for i := 0; i < 32; i++ {
		matrix[i] = make([]int, 32)
	}
	for i := 0; i < N; i++ {
		for r := 0; r < M; r++ {
			for c := 0; c < Q; c++ {
				if x[i*M*Q+r*Q+c] {
					matrix[r][c] = 1
				} else {
					matrix[r][c] = 0
				}
			}
		}
		rk := rank(matrix, M)
		lim := Q // min(M, Q)
		if M < Q {
			lim = M
		}
		if rk == lim {
			full++
		} else if rk == lim-1 {
			full1++
		} else {
			rest++
		}
	}
	fN := float64(N)
	d0 := float64(full) - 0.2888*fN
	d1 := float64(full1) - 0.5776*fN
	d2 := float64(rest) - 0.1336*fN
	V := d0*d0/(0.2888*fN) + d1*d1/(0.5776*fN) + d2*d2/(0.1336*fN)
	P := igamc(1, V/2)
	return P, P
}

// rank over GF(2): copy, forward elimination, count non-zero rows.
func rank(matrix [][]int, m int) int {
	t := make([][]int, m)
	for i := 0; i < m; i++ {
		t[i] = make([]int, m)
		for j := 0; j < m; j++ {
			t[i][j] = matrix[i][j]
		}
	}
	rowEchelon(t, m)
	r := 0
	for i := 0; i < m; i++ {
		nz := false
		for j := 0; j < m; j++ {
			if t[i][j] != 0 {
				nz = true
			}
		}
		if nz {
			r++
		}
	}
	return r
}

// forward elimination over GF(2) with row swap (xor-swap), one pivot column per step.
func rowEchelon(a [][]int, m int) {
	row := 0
	col := 0
	piv := 0
	for step := 0; step < m; step++ {
		found := false
		for k := row; k < m; k++ {
			if a[k][col] == 1 {
				found = true
				piv = k
				break
			}
		}
		if found {
			if piv != row {
				for k := 0; k < m; k++ {
					a[piv][k] ^= a[row][k]
					a[row][k] ^= a[piv][k]
					a[piv][k] ^= a[row][k]
				}
			}
			for j := row + 1; j < m; j++ {
				if a[j][col] == 1 {
					for k := 0; k < m; k++ {
						a[j][k] = a[row][k] ^ a[j][k]
					}
				}
			}
			col++
			row++
		} else {
			col++
		}
	}
}

// ---- 13. linear complexity: N = n/m blocks; L_i by Berlekamp-Massey; mu = m/2 + (9 + s)/36 - (m/3+2/9)/2^m with s = (-1)^m;
// T_i = (-1)^m (L_i - mu) + 2/9; seven classes with borders -2.5 ... 2.5; pi = 1/96, 1/32, 1/8, 1/2, 1/4, 1/16, 1/48;
// P = Q = igamc(3, V/2).
// Note: NIST SP 800-22 writes the sign in mu as (-1)^(m+1). The two conventions move every T_i by 1/18 only; since T_i is an
// integer (up to the 2^-m term) under one convention and an integer - 1/18 under the other, and the class borders are at
// half-integers, both give the same class for every L_i and m (checked by hand for m = 1..4 and asymptotically).

func LinearComplexityProto(x []bool, m int) (float64, float64) {
	n := len(x)
	N := n / m
	v := []float64{0, 0, 0, 0, 0, 0, 0}
	pi := []float64{0.010417, 0.03125, 0.125, 0.5, 0.25, 0.0625, 0.020833}
	V := 0.0
	block := make([]bool, m)
	sign := -1.0
	if m%2 == 0 {
		sign = 1.0
	}
	mu := float64(m)/2 + (9+sign)/36 - (float64(m)/3+2.0/9)/math.Pow(2, float64(m))
	for i := 0; i < N; i++ {
		for j := 0; j < m; j++ {
			block[j] = x[i*m+j]
		}
		L := linearComplexity(block, m)
		T := sign*(float64(L)-mu) + 2.0/9
		if T <= -2.5 {
			v[0]++
		} else if T <= -1.5 {
			v[1]++
		} else if T <= -0.5 {
			v[2]++
		} else if T <= 0.5 {
			v[3]++
		} else if T <= 1.5 {
			v[4]++
		} else if T <= 2.5 {
			v[5]++
		} else {
			v[6]++
		}
	}
	for i := 0; i < 7; i++ {
		d := v[i] - float64(N)*pi[i]
		V += d * d / (float64(N) * pi[i])
	}
	P := igamc(3, V/2)
	return P, P
}

// Berlekamp-Massey over GF(2) on a[0..M-1]: C connection polynomial, B its copy at the last length change (position m),
// L current length. The shifted polynomial x^(N-m) B can have degree M (block 0^(M-1) 1): P has M+1 coefficients.
func linearComplexity(a []bool, M int) int {
	N := 0
	L := 0
	m := -1
	B := make([]int, M)
	C := make([]int, M)
	P := make([]int, M+1)
	T := make([]int, M)
	for i := 0; i < M; i++ {
		B[i] = 0
		C[i] = 0
		T[i] = 0
		P[i] = 0
	}
	C[0] = 1
	B[0] = 1
	for N < M {
		d := 0
		if a[N] {
			d = 1
		}
		for i := 1; i <= L; i++ {
			bit := 0
			if a[N-i] {
				bit = 1
			}
			d += C[i] * bit
		}
		d = d % 2
		if d == 1 {
			for i := 0; i < M; i++ {
				T[i] = C[i]
				P[i] = 0
			}
			for j := 0; j < M; j++ {
				if B[j] == 1 {
					P[j+N-m] = 1
				}
			}
			for i := 0; i < M; i++ {
				C[i] = (C[i] + P[i]) % 2
			}
			if L <= N/2 {
				L = N + 1 - L
				m = N
				for i := 0; i < M; i++ {
					B[i] = T[i]
				}
			}
		}
		N++
	}
	return L
}

// ---- 14. Maurer: L = 7, Q = 1280 initialisation blocks, K = n/L - Q test blocks; table of last occurrence per 7-bit pattern;
// sum = sum log2(i - T[pattern]); c = 0.7 - 0.8/L + (4 + 32/L) K^(-3/L)/15; sigma = c sqrt(variance/K);
// V = (sum/K - 6.1962507)/sigma; erfc pair.

func MaurerUniversalTest(x []bool) (float64, float64) {
	n := len(x)
	L := 7
	Q := 1280
	T := make([]int, 1<<uint(L))
	K := n/L - Q
	sum := 0.0
	expected := []float64{0, 0, 0, 0, 0, 0, 5.2177052, 6.1962507, 7.1836656, 8.1764248, 9.1723243, 10.170032, 11.168765, 12.168070, 13.167693, 14.167488, 15.167379}
	variance := []float64{0, 0, 0, 0, 0, 0, 2.954, 3.125, 3.238, 3.311, 3.356, 3.384, 3.401, 3.410, 3.416, 3.419, 3.421}
	t := 0
	for i := 1; i <= Q; i++ {
		for j := 0; j < L; j++ {
			t = 2 * t
			if x[(i-1)*L+j] {
				t++
			}
		}
		T[t&((1<<uint(L))-1)] = i
	}
	for i := Q + 1; i <= Q+K; i++ {
		for j := 0; j < L; j++ {
			t = 2 * t
			if x[(i-1)*L+j] {
				t++
			}
		}
		sum += math.Log(float64(i)-float64(T[t&((1<<uint(L))-1)])) / math.Log(2)
		T[t&((1<<uint(L))-1)] = i
	}
	c := 0.7 - 0.8/float64(L) + (4+32/float64(L))*(math.Pow(float64(K), -3/float64(L))/15)
	sigma := math.Sqrt(variance[L]/float64(K)) * c
	V := (sum/float64(K) - expected[L]) / sigma
	return normalPQ(V)
}

// rank_alt1: the count of non-zero rows with the scan of a row stopped at its first non-zero entry
// (a row is counted once in either form; the entries after the first non-zero one cannot change that).
func rank_alt1(matrix [][]int, m int) int {
	t := make([][]int, m)
	for i := 0; i < m; i++ {
		t[i] = make([]int, m)
		for j := 0; j < m; j++ {
			t[i][j] = matrix[i][j]
		}
	}
	rowEchelon(t, m)
	r := 0
	for i := 0; i < m; i++ {
		for j := 0; j < m; j++ {
			if t[i][j] != 0 {
				r++
				break
			}
		}
	}
	return r
}

// rank_alt2: the private copy allocated row by row first and filled afterwards (the same t before elimination).
func rank_alt2(matrix [][]int, m int) int {
	t := make([][]int, m)
	for i := 0; i < m; i++ {
		t[i] = make([]int, m)
	}
	for i := 0; i < m; i++ {
		for j := 0; j < m; j++ {
			t[i][j] = matrix[i][j]
		}
	}
	rowEchelon(t, m)
	r := 0
	for i := 0; i < m; i++ {
		nz := false
		for j := 0; j < m; j++ {
			if t[i][j] != 0 {
				nz = true
			}
		}
		if nz {
			r++
		}
	}
	return r
}

// linearComplexity_alt1: parity and halving written with & and >>. Equal to the primary formulation because the
// discrepancy d is a sum of products of 0/1 values (b2i results and coefficients kept in {0,1} by the reduction),
// C[i]+P[i] is a sum of two such values, and N counts up from 0: all three are non-negative, where x%2 == x&1 and
// x/2 == x>>1.
func linearComplexity_alt1(a []bool, M int) int {
	N := 0
	L := 0
	m := -1
	B := make([]int, M)
	C := make([]int, M)
	P := make([]int, M+1)
	T := make([]int, M)
	for i := 0; i < M; i++ {
		B[i] = 0
		C[i] = 0
		T[i] = 0
		P[i] = 0
	}
	C[0] = 1
	B[0] = 1
	for N < M {
		d := 0
		if a[N] {
			d = 1
		}
		for i := 1; i <= L; i++ {
			bit := 0
			if a[N-i] {
				bit = 1
			}
			d += C[i] * bit
		}
		if d&1 == 1 {
			for i := 0; i < M; i++ {
				T[i] = C[i]
				P[i] = 0
			}
			for j := 0; j < M; j++ {
				if B[j] == 1 {
					P[j+N-m] = 1
				}
			}
			for i := 0; i < M; i++ {
				C[i] = (C[i] + P[i]) & 1
			}
			if L <= N>>1 {
				L = N + 1 - L
				m = N
				for i := 0; i < M; i++ {
					B[i] = T[i]
				}
			}
		}
		N++
	}
	return L
}

// rank_alt3: a non-zero row counted and left through a labelled continue of the row loop (the same as counting it and
// breaking out of the column loop: nothing follows the column loop in the row loop's body).
func rank_alt3(matrix [][]int, m int) int {
	t := make([][]int, m)
	for i := 0; i < m; i++ {
		t[i] = make([]int, m)
		for j := 0; j < m; j++ {
			t[i][j] = matrix[i][j]
		}
	}
	rowEchelon(t, m)
	r := 0
rows:
	for i := 0; i < m; i++ {
		for j := 0; j < m; j++ {
			if t[i][j] != 0 {
				r++
				continue rows
			}
		}
	}
	return r
}

// MaurerUniversalTest_alt1: every block's pattern value built afresh from its own L bits instead of being the low L
// bits of a register carried across blocks: the low L bits of the register ARE the last L bits shifted in, so the
// masked value is the same number.
func MaurerUniversalTest_alt1(x []bool) (float64, float64) {
	n := len(x)
	L := 7
	Q := 1280
	T := make([]int, 1<<uint(L))
	K := n/L - Q
	sum := 0.0
	expected := []float64{0, 0, 0, 0, 0, 0, 5.2177052, 6.1962507, 7.1836656, 8.1764248, 9.1723243, 10.170032, 11.168765, 12.168070, 13.167693, 14.167488, 15.167379}
	variance := []float64{0, 0, 0, 0, 0, 0, 2.954, 3.125, 3.238, 3.311, 3.356, 3.384, 3.401, 3.410, 3.416, 3.419, 3.421}
	for i := 1; i <= Q; i++ {
		t := 0
		for j := 0; j < L; j++ {
			t = 2 * t
			if x[(i-1)*L+j] {
				t++
			}
		}
		T[t] = i
	}
	for i := Q + 1; i <= Q+K; i++ {
		t := 0
		for j := 0; j < L; j++ {
			t = 2 * t
			if x[(i-1)*L+j] {
				t++
			}
		}
		sum += math.Log(float64(i)-float64(T[t])) / math.Log(2)
		T[t] = i
	}
	c := 0.7 - 0.8/float64(L) + (4+32/float64(L))*(math.Pow(float64(K), -3/float64(L))/15)
	sigma := math.Sqrt(variance[L]/float64(K)) * c
	V := (sum/float64(K) - expected[L]) / sigma
	return normalPQ(V)
}

// rank_alt4: the private copy's rows cut out of ONE m*m backing array (row i = buf[i*m:(i+1)*m], disjoint windows, so
// the copy holds the same values as m separately allocated rows), and a non-zero row found by ranging over the row and
// stopping at its first non-zero entry. rowEchelon only writes ELEMENTS of the rows it is given (R-EQUIV@rowEchelon pins
// that), so every t[i] still has its m entries afterwards and ranging over t[i] visits columns 0..m-1.
func rank_alt4(matrix [][]int, m int) int {
	t := make([][]int, m)
	buf := make([]int, m*m)
	for i := 0; i < m; i++ {
		row := buf[i*m : (i+1)*m]
		for j := 0; j < m; j++ {
			row[j] = matrix[i][j]
		}
		t[i] = row
	}
	rowEchelon(t, m)
	r := 0
	for i := 0; i < m; i++ {
		for _, v := range t[i] {
			if v != 0 {
				r++
				break
			}
		}
	}
	return r
}

// rank_alt5: separately allocated rows as in the primary form, rows and entries visited by range with the early stop
// (same argument as rank_alt4 for the length of the rows after elimination).
func rank_alt5(matrix [][]int, m int) int {
	t := make([][]int, m)
	for i := 0; i < m; i++ {
		t[i] = make([]int, m)
		for j := 0; j < m; j++ {
			t[i][j] = matrix[i][j]
		}
	}
	rowEchelon(t, m)
	r := 0
	for _, row := range t {
		for _, v := range row {
			if v != 0 {
				r++
				break
			}
		}
	}
	return r
}

// Package ref holds reference formulations of the GM/T 0005-2021 computations, written from the
// property statements (and the formulas of the standard quoted there), not from the repository.
// The checker never runs them: it extracts their structure with the same extractor it applies to
// /repo and decides equality of the two structures statically.
package ref

import "math"

// Alpha is the significance level of GM/T 0005-2021.
const Alpha = 0.01

// Igamc stands for the regularized upper incomplete gamma function Q(a,x); its body is irrelevant
// here (calls are compared as calls of the repository's counterpart).
func Igamc(a, x float64) float64 { return igamc(a, x) }

// Threshold: smallest integer not below s(1 - alpha - 3 sqrt(alpha(1-alpha)/s)).
func Threshold(s int) int {
	n := float64(s)
	return int(math.Ceil(n * (1 - Alpha - 3*math.Sqrt(Alpha*(1-Alpha)/n))))
}

// ThresholdQ: Q(9/2, V/2), V the chi-square of the counts in [0,.1),[.1,.2),...,[.9,1] against s/10.
func ThresholdQ(q []float64) float64 {
	var f [10]int
	for i := 0; i < len(q); i++ {
		x := q[i]
		if x < 0.1 {
			f[0]++
		} else if x < 0.2 {
			f[1]++
		} else if x < 0.3 {
			f[2]++
		} else if x < 0.4 {
			f[3]++
		} else if x < 0.5 {
			f[4]++
		} else if x < 0.6 {
			f[5]++
		} else if x < 0.7 {
			f[6]++
		} else if x < 0.8 {
			f[7]++
		} else if x < 0.9 {
			f[8]++
		} else {
			f[9]++
		}
	}
	e := float64(len(q)) / 10
	V := 0.0
	for i := 0; i < 10; i++ {
		d := float64(f[i]) - e
		V += d * d / e
	}
	return Igamc(4.5, V/2)
}

// ThresholdQ_alt1: the same ten classes found by scanning the nine upper bounds in increasing order:
// the class of x is the first k with x < bounds[k], else 9 — exactly the if-chain of ThresholdQ
// (the chain tests the same bounds in the same order with the same float64 comparison).
func ThresholdQ_alt1(q []float64) float64 {
	bounds := [9]float64{0.1, 0.2, 0.3, 0.4, 0.5, 0.6, 0.7, 0.8, 0.9}
	var f [10]int
	for i := 0; i < len(q); i++ {
		x := q[i]
		k := 0
		for k < len(bounds) && !(x < bounds[k]) {
			k++
		}
		f[k]++
	}
	e := float64(len(q)) / 10
	V := 0.0
	for i := 0; i < 10; i++ {
		d := float64(f[i]) - e
		V += d * d / e
	}
	return igamc(4.5, V/2)
}

// ThresholdQ_alt2: the class found by a helper that scans a package-level table of the nine upper bounds and
// returns at the first bound above x (same comparisons in the same order as the if-chain).
var tqEdges = [9]float64{0.1, 0.2, 0.3, 0.4, 0.5, 0.6, 0.7, 0.8, 0.9}

func tqInterval(x float64) int {
	for i, e := range tqEdges {
		if x < e {
			return i
		}
	}
	return len(tqEdges)
}

func ThresholdQ_alt2(q []float64) float64 {
	var f [10]int
	for i := 0; i < len(q); i++ {
		f[tqInterval(q[i])]++
	}
	e := float64(len(q)) / 10
	V := 0.0
	for i := 0; i < 10; i++ {
		d := float64(f[i]) - e
		V += d * d / e
	}
	return Igamc(4.5, V/2)
}

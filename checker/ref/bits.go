package ref

import "io/ioutil"

// B2bit: the eight bits of b, most significant first.
func B2bit(b byte) []bool {
	return []bool{b&0x80 > 0, b&0x40 > 0, b&0x20 > 0, b&0x10 > 0, b&0x08 > 0, b&0x04 > 0, b&0x02 > 0, b&0x01 > 0}
}

// B2bitArr: concatenation of the MSB-first expansions of the bytes, in order.
func B2bitArr(src []byte) []bool {
	out := make([]bool, 0, len(src)*8)
	for i := 0; i < len(src); i++ {
		out = append(out, B2bit(src[i])...)
	}
	return out
}

// bitsOf stands for B2bitArr where a test is stated on "the bits of the bytes".
func bitsOf(src []byte) []bool { return B2bitArr(src) }

// B2Byte: value of the bits read most significant first.
func B2Byte(arr []bool) byte {
	var res byte
	for i := 0; i < len(arr); i++ {
		res = res << 1
		if arr[i] {
			res = res + 1
		}
	}
	return res
}

// ReadGroup: the bits of the file's bytes.
func ReadGroup(filename string) []bool {
	n := 1000000
	out := make([]bool, 0, n)
	buf, err := ioutil.ReadFile(filename)
	if err != nil {
		panic(err)
	}
	for i := 0; i < len(buf); i++ {
		out = append(out, B2bit(buf[i])...)
	}
	return out
}

// B2bitArr_alt1: the same bits written directly into a result of exactly 8 len(src) elements: element 8i+k is bit k
// (counted from the most significant) of byte i — what appending the eight-bit expansions in order produces.
func B2bitArr_alt1(src []byte) []bool {
	out := make([]bool, len(src)*8)
	for i := 0; i < len(src); i++ {
		b := src[i]
		out[i*8+0] = b&0x80 > 0
		out[i*8+1] = b&0x40 > 0
		out[i*8+2] = b&0x20 > 0
		out[i*8+3] = b&0x10 > 0
		out[i*8+4] = b&0x08 > 0
		out[i*8+5] = b&0x04 > 0
		out[i*8+6] = b&0x02 > 0
		out[i*8+7] = b&0x01 > 0
	}
	return out
}

// ReadGroup_alt1: the file's bytes expanded by B2bitArr (the same bits; the spare capacity of the primary
// formulation's result is not part of its value).
func ReadGroup_alt1(filename string) []bool {
	buf, err := ioutil.ReadFile(filename)
	if err != nil {
		panic(err)
	}
	return B2bitArr(buf)
}

package ref

import "io/ioutil"

// B2bit: the eight bits of b, most significant first.
func B2bit(b byte) []bool {
	return []bool{b&0x80 > 0, b&0x40 > 0, b&0x20 > 0, b&0x10 > 0, b&0x08 > 0, b&0x04 > 0, b&0x02 > 0, b&0x01 > 0}
}

// B2bitArr: concatenation of the MSB-first expansions of the bytes, in order.
func B2bitArr(src []byte) []bool {
	out := make([]bool, 0, len(src)*8)
	for i := 0; i < len(src); i++ {
		out = append(out, B2bit(src[i])...)
	}
	return out
}

// bitsOf stands for B2bitArr where a test is stated on "the bits of the bytes".
func bitsOf(src []byte) []bool { return B2bitArr(src) }

// B2Byte: value of the bits read most significant first.
func B2Byte(arr []bool) byte {
	var res byte
	for i := 0; i < len(arr); i++ {
		res = res << 1
		if arr[i] {
			res = res + 1
		}
	}
	return res
}

// ReadGroup: the bits of the file's bytes.
func ReadGroup(filename string) []bool {
	n := 1000000
	out := make([]bool, 0, n)
	buf, err := ioutil.ReadFile(filename)
	if err != nil {
		panic(err)
	}
	for i := 0; i < len(buf); i++ {
		out = append(out, B2bit(buf[i])...)
	}
	return out
}

package ref

import "math"

// ---- 8. binary derivative: k times replace e_j by e_j xor e_{j+1} (sequence shrinks by one each time);
// S = #ones - #zeros of the first n-k bits; V = S/sqrt(n-k); erfc pair.

func BinaryDerivativeProto(x []bool, k int) (float64, float64) {
	n := len(x)
	w := make([]bool, len(x))
	copy(w, x)
	for i := 0; i < k; i++ {
		for j := 0; j < n-i-1; j++ {
			w[j] = w[j] != w[j+1]
		}
	}
	S := 0
	for i := 0; i < n-k; i++ {
		if w[i] {
			S++
		} else {
			S--
		}
	}
	return normalPQ(float64(S) / math.Sqrt(float64(n-k)))
}

// ---- 9. autocorrelation: A(d) = #{i < n-d : e_i != e_{i+d}}; V = 2(A(d) - (n-d)/2)/sqrt(n-d); erfc pair.

func AutocorrelationProto(x []bool, d int) (float64, float64) {
	n := len(x)
	A := 0
	for i := 0; i < n-d; i++ {
		if x[i] != x[i+d] {
			A++
		}
	}
	V := 2 * (float64(A) - float64(n-d)/2) / math.Sqrt(float64(n-d))
	return normalPQ(V)
}

// ---- 11(10). cumulative sums: S_i partial sums of +-1 from the front (forward) or from the back (backward); Z = max |S_i|;
// P = 1 - sum_{k=(-n/Z+1)/4}^{(n/Z-1)/4} [Phi((4k+1)Z/sqrt n) - Phi((4k-1)Z/sqrt n)]
//       + sum_{k=(-n/Z-3)/4}^{(n/Z-1)/4} [Phi((4k+3)Z/sqrt n) - Phi((4k+1)Z/sqrt n)]   (integer division), Q = P.

func phi(x float64) float64 { return (1 + math.Erf(x/math.Sqrt(2))) / 2 }

func CumulativeTest(x []bool, forward bool) (float64, float64) {
	n := len(x)
	S := 0
	Z := 0
	for i := 0; i < n; i++ {
		var bit bool
		if forward {
			bit = x[i]
		} else {
			bit = x[n-1-i]
		}
		if bit {
			S++
		} else {
			S--
		}
		a := S
		if !(a > 0) {
			a = -a
		}
		if !(Z > a) { // Z = max(Z, |S|)
			Z = a
		}
	}
	P := 1.0
	rn := math.Sqrt(float64(n))
	for k := (-n/Z + 1) / 4; k <= (n/Z-1)/4; k++ {
		P -= phi(float64((4*k+1)*Z)/rn) - phi(float64((4*k-1)*Z)/rn)
	}
	for k := (-n/Z - 3) / 4; k <= (n/Z-1)/4; k++ {
		P += phi(float64((4*k+3)*Z)/rn) - phi(float64((4*k+1)*Z)/rn)
	}
	return P, P
}

// CumulativeTest_alt1: the direction test taken out of the walk (loop unswitching): an ascending walk over x[i] when
// forward, the same walk over x[n-1-i] otherwise; S and Z evolve by the same transfer in either loop.
func CumulativeTest_alt1(x []bool, forward bool) (float64, float64) {
	n := len(x)
	S := 0
	Z := 0
	if forward {
		for i := 0; i < n; i++ {
			if x[i] {
				S++
			} else {
				S--
			}
			a := S
			if !(a > 0) {
				a = -a
			}
			if !(Z > a) {
				Z = a
			}
		}
	} else {
		for i := 0; i < n; i++ {
			if x[n-1-i] {
				S++
			} else {
				S--
			}
			a := S
			if !(a > 0) {
				a = -a
			}
			if !(Z > a) {
				Z = a
			}
		}
	}
	P := 1.0
	rn := math.Sqrt(float64(n))
	for k := (-n/Z + 1) / 4; k <= (n/Z-1)/4; k++ {
		P -= phi(float64((4*k+1)*Z)/rn) - phi(float64((4*k-1)*Z)/rn)
	}
	for k := (-n/Z - 3) / 4; k <= (n/Z-1)/4; k++ {
		P += phi(float64((4*k+3)*Z)/rn) - phi(float64((4*k+1)*Z)/rn)
	}
	return P, P
}

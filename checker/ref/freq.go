package ref

import (
	"math"
	"math/bits"
)

// ---- 1. monobit frequency:  S = #ones - #zeros ; V = S/sqrt(n) ; P = erfc(|V|/sqrt2) ; Q = erfc(V/sqrt2)/2

func normalPQ(V float64) (float64, float64) {
	return math.Erfc(math.Abs(V) / math.Sqrt(2)), math.Erfc(V/math.Sqrt(2)) / 2
}

func MonoBitFrequencyTest(x []bool) (float64, float64) {
	n := len(x)
	S := 0
	for i := 0; i < n; i++ {
		if x[i] {
			S++
		} else {
			S--
		}
	}
	return normalPQ(float64(S) / math.Sqrt(float64(n)))
}

// byte form. Lemma: the +-1 sum of the 8 bits of a byte is 2*popcount(b) - 8.
func MonoBitFrequencyTestBytes(data []byte) (float64, float64) {
	n := 8 * len(data)
	S := 0
	for i := 0; i < len(data); i++ {
		S += 2*bits.OnesCount8(data[i]) - 8
	}
	return normalPQ(float64(S) / math.Sqrt(float64(n)))
}

// ---- 2. frequency within a block: N = n/m full blocks, pi_i = ones_i/m, V = 4m sum (pi_i - 1/2)^2, P = Q = igamc(N/2, V/2)

func FrequencyWithinBlockProto(x []bool, m int) (float64, float64) {
	n := len(x)
	N := n / m
	sum := 0.0
	for i := 0; i < N; i++ {
		ones := 0.0
		for j := 0; j < m; j++ {
			if x[i*m+j] {
				ones++
			}
		}
		d := ones/float64(m) - 0.5
		sum += d * d
	}
	V := 4 * float64(m) * sum
	P := igamc(float64(N)/2, V/2)
	return P, P
}

// ---- 3. poker: N = n/m non-overlapping m-bit patterns (MSB first), V = 2^m/N sum n_i^2 - N, P = Q = igamc((2^m-1)/2, V/2)

func pokerTail(hist []int, N int, m int) (float64, float64) {
	V := 0.0
	for i := 0; i < 1<<uint(m); i++ {
		V += float64(hist[i]) * float64(hist[i])
	}
	V = V * float64(int(1)<<uint(m))
	V = V / float64(N)
	V = V - float64(N)
	P := igamc(float64((int(1)<<uint(m))-1)/2, V/2)
	return P, P
}

func PokerProto(x []bool, m int) (float64, float64) {
	n := len(x)
	N := n / m
	hist := make([]int, 1<<uint(m))
	for i := 0; i < N; i++ {
		t := 0
		for j := 0; j < m; j++ {
			t = 2 * t
			if x[i*m+j] {
				t++
			}
		}
		hist[t]++
	}
	return pokerTail(hist, N, m)
}

// byte form. Lemma (with MSB-first expansion): the 8-bit pattern of byte b is b; its two 4-bit patterns are b>>4 then b&15.
func PokerTestBytes(data []byte, m int) (float64, float64) {
	if m != 4 && m != 8 {
		return PokerProto(bitsOf(data), m)
	}
	hist := make([]int, 1<<uint(m))
	N := 8 * len(data) / m
	if m == 8 {
		for i := 0; i < N; i++ {
			hist[data[i]]++
		}
	} else {
		for i := 0; i < len(data); i++ {
			hist[data[i]>>4]++
			hist[data[i]&15]++
		}
	}
	return pokerTail(hist, N, m)
}

// ---- 4. overlapping subsequences. The sequence is extended cyclically by its first m-1 bits; for k = m, m-1, m-2 the
// n overlapping k-bit windows are counted; psi_k = 2^k/n sum c^2 - n; D = psi_m - psi_{m-1}; D2 = psi_m - 2 psi_{m-1} + psi_{m-2};
// P1 = igamc(2^{m-2}, D/2), P2 = igamc(2^{m-3}, D2/2).
// Sliding form. Lemma: after reading bits e_0..e_i into t = 2t + e, the low k bits of t are the window ending at i.

func psi2(c []int, k int, n int) float64 {
	s := 0.0
	for i := 0; i <= (1<<uint(k))-1; i++ {
		s += float64(c[i]) * float64(c[i])
	}
	s = s * float64(int(1)<<uint(k))
	s = s / float64(n)
	s = s - float64(n)
	return s
}

func OverlappingTemplateMatchingProto(x []bool, m int) (float64, float64, float64, float64) {
	n := len(x)
	c1 := make([]int, 1<<uint(m))
	c2 := make([]int, 1<<uint(m-1))
	c3 := make([]int, 1<<uint(m-2))
	t := 0
	for j := 0; j < m-1; j++ {
		t = 2 * t
		if x[j] {
			t++
		}
	}
	for i := m - 1; i < n+m-1; i++ {
		t = 2 * t
		if x[i%n] {
			t++
		}
		c1[t&((1<<uint(m))-1)]++
		c2[t&((1<<uint(m-1))-1)]++
		c3[t&((1<<uint(m-2))-1)]++
	}
	psi1 := psi2(c1, m, n)
	psiM1 := psi2(c2, m-1, n)
	psiM2 := psi2(c3, m-2, n)
	D := psi1 - psiM1
	D2 := psi1 - 2*psiM1 + psiM2
	P1 := igamc(float64(int(1)<<uint(m-2)), D/2)
	P2 := igamc(float64(int(1)<<uint(m-2))/2, D2/2)
	return P1, P2, P1, P2
}

// ---- 11. approximate entropy: for b = m, m+1: phi_b = sum_pattern (c/n) ln(c/n) over the n cyclic b-bit windows;
// ApEn = phi_m - phi_{m+1}; V = 2n(ln 2 - ApEn); P = Q = igamc(2^{m-1}, V/2).
// The window value is accumulated behind a leading sentinel 1 (k = 2^b + pattern), removed when indexing.

func ApproximateEntropyProto(x []bool, m int) (float64, float64) {
	n := len(x)
	var phi [2]float64
	for b := m; b <= m+1; b++ {
		size := 1 << uint(b)
		c := make([]int, size)
		for i := 0; i < n; i++ {
			k := 1
			for j := 0; j < b; j++ {
				k = 2 * k
				if x[(i+j)%n] {
					k++
				}
			}
			c[k-size]++
		}
		s := 0.0
		for i := 0; i < size; i++ {
			if c[i] > 0 {
				s += float64(c[i]) * math.Log(float64(c[i])/float64(n))
			}
		}
		phi[b-m] = s / float64(n)
	}
	apen := phi[0] - phi[1]
	V := 2 * float64(n) * (math.Log(2) - apen)
	P := igamc(float64(int(1)<<uint(m-1)), V/2)
	return P, P
}

// PokerTestBytes_alt1: for m = 8 the number of patterns N = 8 len(data)/8 is len(data); the byte loop may as well
// run over the data itself.
func PokerTestBytes_alt1(data []byte, m int) (float64, float64) {
	if m != 4 && m != 8 {
		return PokerProto(bitsOf(data), m)
	}
	hist := make([]int, 1<<uint(m))
	N := 8 * len(data) / m
	if m == 8 {
		for i := 0; i < len(data); i++ {
			hist[data[i]]++
		}
	} else {
		for i := 0; i < len(data); i++ {
			hist[data[i]>>4]++
			hist[data[i]&15]++
		}
	}
	return pokerTail(hist, N, m)
}

package ref

import (
	"fmt"
	"math"
	"math/bits"
	"math/cmplx"
)

// ---- 15. DFT: +-1 sequence zero-extended to the next power of two (at least 2); f = DFT; T = sqrt(2.995732274 n);
// N0 = 0.95 n/2; N1 = #{ j < n/2 - 1 : |f_j| < T }; V = (N1 - N0)/sqrt(0.95*0.05*n/3.8); erfc pair.

func ceilPow2(N int) int {
	i := 2
	for {
		if i >= N {
			return i
		}
		i = i * 2
	}
}

func DiscreteFourierTransformTest(x []bool) (float64, float64) {
	n := len(x)
	N := ceilPow2(n)
	rr := make([]complex128, N)
	for i := 0; i < n; i++ {
		if x[i] {
			rr[i] = complex(1, 0)
		} else {
			rr[i] = complex(-1, 0)
		}
	}
	f, err := fftNew(N)
	if err != nil {
		panic(err)
	}
	f.Transform(rr)
	T := math.Sqrt(2.995732274 * float64(n))
	N0 := 0.95 * float64(n) / 2
	N1 := 0
	for i := 0; i < n/2-1; i++ {
		if cmplx.Abs(rr[i]) < T {
			N1++
		}
	}
	V := (float64(N1) - N0) / math.Sqrt(0.95*0.05*float64(n)/3.8)
	return normalPQ(V)
}

// ---- fft: radix-2 decimation-in-time, in place, roots E[k] = exp(-2 pi i k/N).

type FFT struct {
	N    int
	p    int
	E    []complex128
	perm []int
}

func fftNew(N int) (f FFT, err error) {
	var p int
	N, p, err = lastPow2(N)
	if err != nil {
		return f, err
	}
	f = FFT{N: N, p: p, E: roots(N), perm: permutationIndex(p)}
	return f, nil
}

// largest power of two not exceeding N (2 <= N <= 2^27) and its exponent.
func lastPow2(N int) (int, int, error) {
	if N < 2 {
		return 0, 0, fmt.Errorf("too short")
	} else if N > 1<<27 {
		return 0, 0, fmt.Errorf("too long")
	}
	i := 2
	for p := 1; ; p++ {
		j := 2 * i
		if j > N {
			return i, p, nil
		}
		i = j
	}
}

func roots(N int) []complex128 {
	E := make([]complex128, N)
	for k := 0; k < N; k++ {
		s, c := math.Sincos(-2 * math.Pi * float64(k) / float64(N))
		E[k] = complex(c, s)
	}
	return E
}

// bit-reversal table by doubling: idx[i] <- 2 idx[i]; idx[i+n] <- idx[i] + 1.
func permutationIndex(P int) []int {
	N := 1 << uint(P)
	idx := make([]int, N)
	idx[0] = 0
	n := 1
	for p := 0; p < P; p++ {
		for i := 0; i < n; i++ {
			idx[i] = 2 * idx[i]
			idx[i+n] = idx[i] + 1
		}
		n = 2 * n
	}
	return idx
}

func inputPermutation(x []complex128, p []int) {
	for i := 0; i < len(p); i++ {
		k := p[i]
		if i < k {
			x[i], x[k] = x[k], x[i]
		}
	}
}

// stages p = 1..log2 N: half-size n doubles, stride s halves; butterfly (i, j = i+n) with twiddles E[k s], E[s (k+n)].
func (f FFT) Transform(x []complex128) []complex128 {
	if len(x) != f.N {
		panic("length mismatch")
	}
	inputPermutation(x, f.perm)
	n := 1
	s := f.N
	for p := 1; p <= f.p; p++ {
		s >>= 1
		for b := 0; b < s; b++ {
			o := 2 * b * n
			for k := 0; k < n; k++ {
				i := k + o
				j := i + n
				x[i], x[j] = x[i]+f.E[k*s]*x[j], x[i]+f.E[s*(k+n)]*x[j]
			}
		}
		n = 2 * n
	}
	return x
}

// inverse: reverse indices 1..N-1, forward transform, scale by 1/N.
func (f FFT) Inverse(x []complex128) []complex128 {
	if len(x) != f.N {
		panic("length mismatch")
	}
	for i := 1; i < f.N/2; i++ {
		j := f.N - i
		x[i], x[j] = x[j], x[i]
	}
	f.Transform(x)
	inv := 1.0 / float64(f.N)
	for i := 0; i < len(x); i++ {
		x[i] = x[i] * complex(inv, 0)
	}
	return x
}

// Inverse_alt1: the same, with the index reversal written over len(x) (which equals f.N past the length check).
func (f FFT) Inverse_alt1(x []complex128) []complex128 {
	if len(x) != f.N {
		panic("length mismatch")
	}
	N := len(x)
	for i := 1; i < N/2; i++ {
		j := N - i
		x[i], x[j] = x[j], x[i]
	}
	f.Transform(x)
	inv := 1.0 / float64(f.N)
	for i := 0; i < len(x); i++ {
		x[i] = x[i] * complex(inv, 0)
	}
	return x
}

// fftNew_alt1: the same plan built without named results (the zero FFT is returned with the error).
func fftNew_alt1(N int) (FFT, error) {
	n, p, err := lastPow2(N)
	if err != nil {
		return FFT{}, err
	}
	return FFT{N: n, p: p, E: roots(n), perm: permutationIndex(p)}, nil
}

// lastPow2_alt1: the doubling search written as a while loop: n doubles as long as the double still fits, p counts
// the doublings from 1 (the same (n, p) as the loop-with-exit-in-the-middle of lastPow2: both stop at the first
// n with 2n > N). Zeros are returned with the errors.
func lastPow2_alt1(N int) (n, p int, err error) {
	if N < 2 {
		return 0, 0, fmt.Errorf("fft input length must be >= 2")
	}
	if N > 1<<27 {
		return 0, 0, fmt.Errorf("fft input length must be < %d. It is: %d", 1<<27, N)
	}
	n = 2
	for p = 1; n*2 <= N; p++ {
		n *= 2
	}
	return n, p, nil
}

// lastPow2_alt2: the same with the shift spelling of the doubling.
func lastPow2_alt2(N int) (n, p int, err error) {
	if N < 2 {
		return 0, 0, fmt.Errorf("fft input length must be >= 2")
	}
	if N > 1<<27 {
		return 0, 0, fmt.Errorf("fft input length must be < %d. It is: %d", 1<<27, N)
	}
	n, p = 2, 1
	for n<<1 <= N {
		n <<= 1
		p++
	}
	return n, p, nil
}

// permutationIndex_alt1: the doubling written over the block size itself: n runs through 1, 2, 4, ... below
// N = 2^P, which are exactly the P values n = 2^p, p = 0..P-1 of the primary formulation.
func permutationIndex_alt1(P int) []int {
	N := 1 << uint(P)
	idx := make([]int, N)
	idx[0] = 0
	for n := 1; n < N; n <<= 1 {
		for i := 0; i < n; i++ {
			v := 2 * idx[i]
			idx[i] = v
			idx[i+n] = v + 1
		}
	}
	return idx
}

// lastPow2_alt3: the largest power of two not exceeding N in closed form: for N >= 2, bits.Len(uint(N)) - 1 is
// floor(log2 N), the exponent p with 2^p <= N < 2^(p+1) that the doubling search stops at.
func lastPow2_alt3(N int) (n, p int, err error) {
	if N < 2 {
		return 0, 0, fmt.Errorf("fft input length must be >= 2")
	}
	if N > 1<<27 {
		return 0, 0, fmt.Errorf("fft input length must be < %d. It is: %d", 1<<27, N)
	}
	p = bits.Len(uint(N)) - 1
	return 1 << uint(p), p, nil
}

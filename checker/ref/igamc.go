package ref

func igamc(a, x float64) float64 { return 0 }

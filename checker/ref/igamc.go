package ref

import "math"

// Cephes igam/igamc (Moshier): regularized incomplete gamma functions.
const (
	maxLog = 7.09782712893383996732e2 // log(DBL_MAX)
	macheP = 1.11022302462515654042e-16 // 2^-53
	bigV   = 4.503599627370496e15       // 2^52
	bigInv = 2.22044604925031308085e-16 // 2^-52
)

func lgam(x float64) float64 {
	v, s := math.Lgamma(x)
	return v * float64(s)
}

// igam: P(a,x) by the power series x^a e^-x / Gamma(a+1) * sum x^k/((a+1)...(a+k)); complement for x > 1 and x > a.
func igam(a, x float64) float64 {
	if x <= 0 || a <= 0 {
		return 0
	}
	if x > 1 && x > a {
		return 1 - igamc(a, x)
	}
	ax := a*math.Log(x) - x - lgam(a)
	if ax < -maxLog {
		return 0
	}
	ax = math.Exp(ax)
	r := a
	c := 1.0
	ans := 1.0
	for {
		r += 1
		c *= x / r
		ans += c
		if !(c/ans > macheP) {
			break
		}
	}
	return ans * ax / a
}

// igamc: Q(a,x) by the continued fraction for x >= 1 and x >= a; complement of the series otherwise.
func igamc(a, x float64) float64 {
	if x <= 0 || a <= 0 {
		return 1
	}
	if x < 1 || x < a {
		return 1 - igam(a, x)
	}
	ax := a*math.Log(x) - x - lgam(a)
	if ax < -maxLog {
		return 0
	}
	ax = math.Exp(ax)
	y := 1 - a
	z := x + y + 1
	c := 0.0
	pkm2 := 1.0
	qkm2 := x
	pkm1 := x + 1
	qkm1 := z * x
	ans := pkm1 / qkm1
	for {
		c += 1
		y += 1
		z += 2
		yc := y * c
		pk := pkm1*z - pkm2*yc
		qk := qkm1*z - qkm2*yc
		var t float64
		if qk != 0 {
			r := pk / qk
			t = math.Abs((ans - r) / r)
			ans = r
		} else {
			t = 1
		}
		pkm2 = pkm1
		pkm1 = pk
		qkm2 = qkm1
		qkm1 = qk
		if math.Abs(pk) > bigV {
			pkm2 *= bigInv
			pkm1 *= bigInv
			qkm2 *= bigInv
			qkm1 *= bigInv
		}
		if !(t > macheP) {
			break
		}
	}
	return ans * ax
}

// igam_alt1: the same series with the do-while written as a flag-controlled for loop (the flag is true on entry,
// so the body runs at least once, and is recomputed from the same test after every pass).
func igam_alt1(a, x float64) float64 {
	if x <= 0 || a <= 0 {
		return 0
	}
	if x > 1 && x > a {
		return 1 - igamc(a, x)
	}
	ax := a*math.Log(x) - x - lgam(a)
	if ax < -maxLog {
		return 0
	}
	ax = math.Exp(ax)
	r := a
	c := 1.0
	ans := 1.0
	for more := true; more; more = c/ans > macheP {
		r += 1
		c *= x / r
		ans += c
	}
	return ans * ax / a
}

// igamc_alt1: the same continued fraction with the do-while written as a head-tested loop on the convergence measure
// itself: t starts at 1 (> macheP), so the body runs at least once, and the test after every pass is the same
// t > macheP on the t that pass computed.
func igamc_alt1(a, x float64) float64 {
	if x <= 0 || a <= 0 {
		return 1
	}
	if x < 1 || x < a {
		return 1 - igam(a, x)
	}
	ax := a*math.Log(x) - x - lgam(a)
	if ax < -maxLog {
		return 0
	}
	ax = math.Exp(ax)
	y := 1 - a
	z := x + y + 1
	c := 0.0
	pkm2 := 1.0
	qkm2 := x
	pkm1 := x + 1
	qkm1 := z * x
	ans := pkm1 / qkm1
	for t := 1.0; t > macheP; {
		c += 1
		y += 1
		z += 2
		yc := y * c
		pk := pkm1*z - pkm2*yc
		qk := qkm1*z - qkm2*yc
		if qk != 0 {
			r := pk / qk
			t = math.Abs((ans - r) / r)
			ans = r
		} else {
			t = 1
		}
		pkm2 = pkm1
		pkm1 = pk
		qkm2 = qkm1
		qkm1 = qk
		if math.Abs(pk) > bigV {
			pkm2 *= bigInv
			pkm1 *= bigInv
			qkm2 *= bigInv
			qkm1 *= bigInv
		}
	}
	return ans * ax
}

package ref

import "math"

// ---- 5. runs: V_obs = number of runs = 1 + #{i < n-1 : e_i != e_{i+1}}; pi = ones/n;
// V = (V_obs - 2 n pi (1-pi)) / (2 sqrt(n) pi (1-pi)); P = erfc(|V|/sqrt2); Q = erfc(V/sqrt2)/2.
// One pass over the n-1 adjacent pairs also counts the ones of e_0..e_{n-2}; e_{n-1} is added afterwards.

func RunsTest(x []bool) (float64, float64) {
	n := len(x)
	ones := 0.0
	runs := 1
	for i := 0; i < n-1; i++ {
		if x[i] != x[i+1] {
			runs++
		}
		if x[i] {
			ones++
		}
	}
	if x[n-1] {
		ones++
	}
	pi := ones / float64(n)
	V := (float64(runs) - 2*float64(n)*pi*(1-pi)) / (2 * math.Sqrt(float64(n)) * pi * (1 - pi))
	return normalPQ(V)
}

// ---- 6. runs distribution: k = max{i : (n-i+3)/2^(i+2) >= 5}; b_i / g_i = number of 1-runs / 0-runs of length i,
// lengths above k pooled into class k; T = sum(b_i+g_i); e_i = T/2^(i+1) for i < k, e_k = T/2^k;
// V = sum ((b_i-e_i)^2 + (g_i-e_i)^2)/e_i; P = Q = igamc(k-1, V/2).

func RunsDistributionTest(x []bool) (float64, float64) {
	n := len(x)
	k := 0
	for {
		k++
		if float64(n-k+3)/float64(int(1)<<uint(k+2)) < 5 {
			break
		}
	}
	k--
	e := make([]float64, k)
	b := make([]float64, k)
	g := make([]float64, k)
	V := 0.0
	cur := x[0]
	run := 0
	for i := 0; i < n; i++ {
		if x[i] == cur {
			run++
		} else {
			if run > k {
				run = k
			}
			if cur {
				b[run-1]++
			} else {
				g[run-1]++
			}
			cur = x[i]
			run = 1
		}
	}
	// the last run
	if run > k {
		run = k
	}
	if cur {
		b[run-1]++
	} else {
		g[run-1]++
	}
	T := 0.0
	for i := 0; i < k; i++ {
		T += b[i] + g[i]
	}
	for i := 0; i < k; i++ {
		if i < k-1 {
			e[i] = T / float64(int(1)<<uint(i+2))
		} else {
			e[i] = T / float64(int(1)<<uint(i+1))
		}
	}
	for i := 0; i < k; i++ {
		V += (b[i] - e[i]) * (b[i] - e[i]) / e[i]
		V += (g[i] - e[i]) * (g[i] - e[i]) / e[i]
	}
	P := igamc(float64(k-1), V/2)
	return P, P
}

// ---- 7. longest run in a block. Block length 8 / 128 / 10000 for n < 6272 / < 750000 / otherwise; the longest run of the
// chosen symbol in each of the N = n/m blocks is clamped into the K+1 classes [lowest, lowest+K];
// V = sum (v_i - N pi_i)^2/(N pi_i); P = Q = igamc(K/2, V/2).

var parameters = []struct {
	pi     []float64
	k      int
	m      int
	startV int
}{
	{pi: []float64{0.2148, 0.3672, 0.2305, 0.1875}, k: 3, m: 8, startV: 1},
	{pi: []float64{0.1174, 0.2430, 0.2494, 0.1752, 0.1027, 0.1124}, k: 5, m: 128, startV: 4},
	{pi: []float64{0.086632, 0.208201, 0.248419, 0.193913, 0.121458, 0.068011, 0.073366}, k: 6, m: 10000, startV: 10},
}

func selectParameters(n int) int {
	if n < 6272 {
		return 0
	}
	if n < 750000 {
		return 1
	}
	return 2
}

func LongestRunOfOnesInABlockProto(x []bool, ones bool) (float64, float64) {
	n := len(x)
	par := parameters[selectParameters(n)]
	N := n / par.m
	v := make([]float64, par.k+1)
	for i := 0; i < N; i++ {
		run := 0
		longest := 0
		for j := 0; j < par.m; j++ {
			if x[i*par.m+j] == ones {
				run++
				if !(longest > run) { // longest = max(longest, run)
					longest = run
				}
			} else {
				run = 0
			}
		}
		if longest < par.startV {
			longest = par.startV
		} else if longest > par.startV+par.k {
			longest = par.startV + par.k
		}
		v[longest-par.startV]++
	}
	V := 0.0
	for i := 0; i < par.k+1; i++ {
		V += (v[i] - float64(N)*par.pi[i]) * (v[i] - float64(N)*par.pi[i]) / (float64(N) * par.pi[i])
	}
	P := igamc(float64(par.k)/2, V/2)
	return P, P
}

// RunsTest_alt1: the standard's steps taken literally, one pass each: pi = #ones/n over all n bits,
// V_obs = 1 + #{1 <= i < n : e_{i-1} != e_i}. Same sums as RunsTest (which folds the first n-1 bits of the
// ones count into the pair loop and adds e_{n-1} afterwards); float64 counting of at most 2^53 ones is exact
// in either order.
func RunsTest_alt1(x []bool) (float64, float64) {
	n := len(x)
	ones := 0.0
	for i := 0; i < n; i++ {
		if x[i] {
			ones++
		}
	}
	pi := ones / float64(n)
	runs := 1
	for i := 1; i < n; i++ {
		if x[i-1] != x[i] {
			runs++
		}
	}
	V := (float64(runs) - 2*float64(n)*pi*(1-pi)) / (2 * math.Sqrt(float64(n)) * pi * (1 - pi))
	return normalPQ(V)
}

// LongestRunOfOnesInABlockProto_alt1: the class clamp written as min(max(longest, startV), startV+k). Equal to the
// if / else-if chain of the primary formulation because k >= 0 in every row of the parameter table (3, 5, 6: the
// rows are pinned by R-TABLE), so startV <= startV+k and the two one-sided clamps cannot interfere.
func LongestRunOfOnesInABlockProto_alt1(x []bool, ones bool) (float64, float64) {
	n := len(x)
	par := parameters[selectParameters(n)]
	N := n / par.m
	v := make([]float64, par.k+1)
	for i := 0; i < N; i++ {
		run := 0
		longest := 0
		for j := 0; j < par.m; j++ {
			if x[i*par.m+j] == ones {
				run++
				if !(longest > run) {
					longest = run
				}
			} else {
				run = 0
			}
		}
		c := longest
		if c < par.startV {
			c = par.startV
		}
		hi := par.startV + par.k
		if c > hi {
			c = hi
		}
		v[c-par.startV]++
	}
	V := 0.0
	for i := 0; i < par.k+1; i++ {
		V += (v[i] - float64(N)*par.pi[i]) * (v[i] - float64(N)*par.pi[i]) / (float64(N) * par.pi[i])
	}
	P := igamc(float64(par.k)/2, V/2)
	return P, P
}

package main

// Obligations, evidence files, known findings, the VIOLATION / KNOWN-FINDING protocol.

import (
	"encoding/json"
	"fmt"
	"os"
	"path/filepath"
	"regexp"
	"sort"
	"strings"
	"time"
)

type Obligation struct {
	Key     string `json:"key"`    // rule@construct, stable across line moves
	Rule    string `json:"rule"`   // rule name
	Where   string `json:"where"`  // file:line of the construct inspected
	Func    string `json:"func,omitempty"`
	Status  string `json:"status"` // discharged | refuted | undecided
	Detail  string `json:"detail"` // what was matched / why it fails
	Witness string `json:"witness,omitempty"`
	Nontrivial bool `json:"inspected_repo_code"`
}

type Check struct {
	Prop   string
	Tier   string
	Seed   int64
	Obls   []*Obligation
	seen   map[string]bool
	Explanation string
	Assumptions []string
	Extra  map[string]interface{}
	start  time.Time
	Floors map[string]int // rule -> minimum number of instances
	P      *Prog
}

func NewCheck(prop, tier string, seed int64) *Check {
	return &Check{Prop: prop, Tier: tier, Seed: seed, seen: map[string]bool{}, Extra: map[string]interface{}{}, start: time.Now(), Floors: map[string]int{}}
}

func (c *Check) add(status, rule, construct, where, detail string) *Obligation {
	key := rule + "@" + construct
	if c.seen[key] {
		// keep keys unique
		for i := 2; ; i++ {
			k := fmt.Sprintf("%s#%d", key, i)
			if !c.seen[k] {
				key = k
				break
			}
		}
	}
	c.seen[key] = true
	o := &Obligation{Key: key, Rule: rule, Where: where, Status: status, Detail: detail, Nontrivial: where != "" && where != "-"}
	c.Obls = append(c.Obls, o)
	return o
}

func (c *Check) Ok(rule, construct, where, format string, a ...interface{}) {
	c.add("discharged", rule, construct, where, fmt.Sprintf(format, a...))
}
func (c *Check) Fail(rule, construct, where, format string, a ...interface{}) {
	c.add("refuted", rule, construct, where, fmt.Sprintf(format, a...))
}
func (c *Check) Undecided(rule, construct, where, format string, a ...interface{}) {
	c.add("undecided", rule, construct, where, fmt.Sprintf(format, a...))
}

// Expect records one obligation: discharged when cond holds, refuted otherwise.
func (c *Check) Expect(cond bool, rule, construct, where, okDetail, failDetail string) bool {
	if cond {
		c.Ok(rule, construct, where, "%s", okDetail)
	} else {
		c.Fail(rule, construct, where, "%s", failDetail)
	}
	return cond
}

func (c *Check) Floor(rule string, n int) { c.Floors[rule] = n }

type KnownFinding struct {
	Property string `json:"property"`
	Key      string `json:"key"`
	Status   string `json:"status"` // known | fixed
	What     string `json:"what"`
	Construct string `json:"construct,omitempty"` // substring that must occur in the refutation detail for a "known" entry to match
	Commit   string `json:"commit,omitempty"`
}

func loadKnown(path string) []KnownFinding {
	b, err := os.ReadFile(path)
	if err != nil {
		return nil
	}
	var k []KnownFinding
	if json.Unmarshal(b, &k) != nil {
		return nil
	}
	return k
}

var unsafeName = regexp.MustCompile(`[^A-Za-z0-9_.@#-]+`)

// Finish prints the per-obligation lines, writes evidence and replay files, and returns the exit code.
func (c *Check) Finish(verifDir string, only string) int {
	// instance-count floors
	counts := map[string]int{}
	for _, o := range c.Obls {
		counts[o.Rule]++
	}
	var frules []string
	for r := range c.Floors {
		frules = append(frules, r)
	}
	sort.Strings(frules)
	for _, r := range frules {
		if counts[r] < c.Floors[r] {
			c.Fail("R-FLOOR", r, "-", "rule %s matched %d instances, below the floor %d confirmed by hand: the rule no longer sees its anchors", r, counts[r], c.Floors[r])
		}
	}
	known := loadKnown(filepath.Join(verifDir, "known_findings.json"))
	isKnown := func(o *Obligation) *KnownFinding {
		for i := range known {
			k := &known[i]
			if k.Status == "known" && k.Property == c.Prop && k.Key == o.Key && (k.Construct == "" || strings.Contains(o.Detail, k.Construct)) {
				return k
			}
		}
		return nil
	}
	_ = os.MkdirAll(filepath.Join(verifDir, "evidence", "replay"), 0o755)
	discharged, violations, nontriv := 0, 0, 0
	distinct := map[string]bool{}
	var samples []interface{}
	for _, o := range c.Obls {
		if only != "" && o.Key != only {
			continue
		}
		switch o.Status {
		case "discharged":
			discharged++
			fmt.Printf("ok        %-60s %s  %s\n", o.Key, o.Where, trunc(o.Detail, 160))
		default:
			if k := isKnown(o); k != nil {
				fmt.Printf("KNOWN-FINDING: property=%s %s — %s [%s]\n", c.Prop, k.What, o.Key, o.Where)
				discharged++ // does not affect the exit code
			} else {
				violations++
				rp := filepath.Join(verifDir, "evidence", "replay", c.Prop+"-"+unsafeName.ReplaceAllString(o.Key, "_")+".json")
				b, _ := json.MarshalIndent(map[string]interface{}{"property": c.Prop, "obligation": o, "tier": c.Tier,
					"replay": fmt.Sprintf("bin/rcheck -prop %s -tier %s -only '%s'", c.Prop, c.Tier, o.Key)}, "", " ")
				_ = os.WriteFile(rp, b, 0o644)
				fmt.Printf("%-9s %-60s %s  %s\n", strings.ToUpper(o.Status), o.Key, o.Where, o.Detail)
				fmt.Printf("VIOLATION property=%s replay=%s\n", c.Prop, rp)
			}
		}
		if o.Nontrivial && !distinct[o.Key] {
			distinct[o.Key] = true
			nontriv++
		}
		samples = append(samples, o)
	}
	cov := map[string]interface{}{
		"explanation":         c.Explanation,
		"obligations":         len(samples),
		"discharged":          discharged,
		"evaluations":         len(samples),
		"distinct_nontrivial": nontriv,
		"rule":                "one obligation per rule instance (rule@construct); non-trivial = the discharge inspected at least one instruction or declaration of /repo (has a file:line)",
		"samples":             samples,
		"checker_cmd":         fmt.Sprintf("bin/rcheck -prop %s -tier %s", c.Prop, c.Tier),
		"trusted_base": []string{"Go type checker and go/ssa construction (x/tools v0.29.0)",
			"documented contracts of io.ReadFull, sync.WaitGroup, sync.Mutex, sync/atomic, channels, math.*",
			"no unsafe/reflect/cgo/assembly in the module (asserted on load)"},
		"rule_instances": counts,
	}
	var fnames []string
	nl, ne := 0, 0
	for f, v := range analysedFuncs {
		fnames = append(fnames, fmt.Sprintf("%s (loops %d, events %d)", f, v[0], v[1]))
		nl += v[0]
		ne += v[1]
	}
	sort.Strings(fnames)
	cov["functions_summarised"] = fnames
	cov["loops_summarised"] = nl
	cov["events_summarised"] = ne
	for k, v := range c.Extra {
		cov[k] = v
	}
	if c.Assumptions == nil {
		c.Assumptions = []string{"see coverage.trusted_base and coverage.explanation"}
	}
	ev := map[string]interface{}{
		"property_id": c.Prop,
		"tier":        c.Tier,
		"seed":        c.Seed,
		"level":       "other",
		"coverage":    cov,
		"assumptions": c.Assumptions,
		"wall_s":      time.Since(c.start).Seconds(),
		"violations":  violations,
	}
	if only == "" {
		b, _ := json.MarshalIndent(ev, "", " ")
		_ = os.WriteFile(filepath.Join(verifDir, "evidence", c.Prop+".json"), b, 0o644)
	}
	fmt.Printf("%s: %d obligations, %d discharged, %d violations (%.1fs)\n", c.Prop, len(samples), discharged, violations, time.Since(c.start).Seconds())
	if violations > 0 {
		return 1
	}
	return 0
}

func trunc(s string, n int) string {
	if len(s) > n {
		return s[:n] + "…"
	}
	return s
}

func readReplay(path string) (prop, key string) {
	b, err := os.ReadFile(path)
	if err != nil {
		return "", ""
	}
	var m struct {
		Property   string      `json:"property"`
		Obligation *Obligation `json:"obligation"`
	}
	if json.Unmarshal(b, &m) != nil || m.Obligation == nil {
		return "", ""
	}
	return m.Property, m.Obligation.Key
}

package main

// Workflow analysis shared by C07-C10, C14: descriptors and structural obligations for the
// sequential and parallel detection workflows of package detect.

import (
	"fmt"
	"strings"

	"golang.org/x/tools/go/ssa"
)

type wfRef struct {
	Name  string
	S     int64
	Bytes int64
	Round string
	Items int64
}

var seqRefs = []wfRef{
	{"FactoryDetect", 50, 125000, "Round15", 15},
	{"PowerOnDetect", 20, 125000, "Round15", 15},
	{"PeriodDetect", 20, 2500, "Round12", 12},
}
var fastRefs = []wfRef{
	{"FactoryDetectFast", 50, 125000, "Round15", 15},
	{"PowerOnDetectFast", 20, 125000, "Round15", 15},
	{"PeriodDetectFast", 20, 2500, "Round12", 12},
}

type wfDesc struct {
	Fn        *ssa.Function
	Sum       *Summary
	X         *Ext
	S, Bytes  int64
	Round     string
	Items     int64 // len(counters)
	DistOuter int64
	DistInner int64
	ThreshArg int64
	Source    *Term
	Counters  *Term // object
	Dist      *Term // object
	Buf       *Term // slice term handed to the read
	Read      *Event
	RoundCall *Event
	Sample    *LoopS
	// fast
	Worker    *Summary
	GoEv      *Event
	Jobs      *Term
	Wait      *Term
	WaitEv    *Event
	Errs      *Term
	Lock      *Term
	RecvTok   *Term
	JobLoop   *LoopS
	ok        bool
	CountOnly bool // C14: only the pass-count criterion and its failing return matter
	PassOnly  bool // C14: only the pass-count accumulation matters
}

func wfConfig() Config {
	return Config{Opaque: func(f *ssa.Function) (bool, bool) {
		if f.Pkg == nil {
			return false, false
		}
		switch f.Pkg.Pkg.Path() {
		case pkgRoot, pkgFFT:
			return true, false
		case pkgDetect:
			switch f.Name() {
			case "Threshold":
				return true, true
			case "ThresholdQ", "Round15", "Round12":
				return true, false
			}
		}
		return false, false
	}}
}

func roundName(callee string) string {
	switch callee {
	case pkgDetect + ".Round15":
		return "Round15"
	case pkgDetect + ".Round12":
		return "Round12"
	}
	return callee
}

func isReadFull(e *Event, S *Store) bool {
	if e.Callee == "io.ReadFull" && len(e.Args) == 2 {
		return true
	}
	if e.Callee == "io.ReadAtLeast" && len(e.Args) == 3 {
		_, _, ln, ok := isSliceOf(e.Args[1])
		return ok && ln == e.Args[2]
	}
	return false
}

// readSites lists every event through which `source` is consumed or escapes.
func sourceUses(sum *Summary, source *Term) []*Event {
	return events(sum.Top, func(e *Event) bool {
		if e.Kind == "return" || e.Kind == "alloc" {
			return false
		}
		return eventMentions(e, source)
	})
}

func (d *wfDesc) errOf(read *Event) *Term {
	if read == nil || read.Res == nil {
		return nil
	}
	return d.X.S.mkOp("extract1", TRef, d.X.S.SymTerm(read.Res))
}

// analyzeSeq extracts the descriptor of a sequential workflow and checks R-WF-READ/DESC structure.
// Obligations are emitted under the given rule-name prefix set.
func analyzeSeq(c *Check, p *Prog, name string, rules map[string]bool) *wfDesc {
	fn := p.Func(pkgDetect, name)
	if fn == nil {
		c.Fail("R-ANCHOR", name, "-", "function detect.%s not found", name)
		return nil
	}
	x := NewExt(p, NewStore(), wfConfig())
	sum := x.Summarize(fn, nil, nil)
	S := x.S
	d := &wfDesc{Fn: fn, Sum: sum, X: x}
	where := p.Pos(fn.Pos())
	if len(sum.Undecided) > 0 {
		c.Undecided("R-EXTRACT", name, where, "extractor does not cover: %s", strings.Join(sum.Undecided, "; "))
		return nil
	}
	if len(sum.Params) < 1 {
		c.Fail("R-ANCHOR", name, where, "no source parameter")
		return nil
	}
	d.Source = sum.Params[0]
	uses := sourceUses(sum, d.Source)
	var reads []*Event
	for _, e := range uses {
		if e.Kind == "call" && isReadFull(e, S) && e.Args[0] == d.Source {
			reads = append(reads, e)
		}
	}
	if rules["R-WF-READ"] {
		if len(reads) == 1 && len(uses) == 1 {
			c.Ok("R-WF-READ", name+"/only-use", wherePos(p, reads[0]), "source is consumed by exactly one call, %s(source, buf); no other use of source in %s or its inlined callees", reads[0].Callee, name)
		} else {
			var ds []string
			for _, e := range uses {
				ds = append(ds, e.String(p))
			}
			c.Fail("R-WF-READ", name+"/only-use", where, "source must be consumed by exactly one full read; found %d uses: %s", len(uses), strings.Join(ds, " | "))
		}
	}
	if len(reads) != 1 {
		return d
	}
	d.Read = reads[0]
	d.Sample = d.Read.Loop
	if d.Sample == nil || d.Sample.Parent != nil {
		if rules["R-WF-READ"] {
			c.Fail("R-WF-READ", name+"/loop", wherePos(p, d.Read), "the sample read is not directly inside one top-level sample loop")
		}
		return d
	}
	// executed on every iteration
	he := headExit(d.Sample)
	everyIter := he != nil && S.Equivalent(d.Read.Guard, S.Not(he.Guard))
	if b, ok := intOf(d.Sample.Bound); ok {
		d.S = b
	}
	// loop counter starts at 0 with step 1: the bound computation already normalises; require an IV with init 0
	if rules["R-WF-READ"] {
		c.Expect(everyIter && d.S > 0, "R-WF-READ", name+"/per-iteration", wherePos(p, d.Read),
			fmt.Sprintf("one read per iteration of the canonical sample loop with %d iterations", d.S),
			fmt.Sprintf("the read is not executed exactly once on every iteration of a counted sample loop (guard %v, bound %v)", d.Read.Guard, d.Sample.Bound))
	}
	// buffer
	root, off, ln, ok := isSliceOf(d.Read.Args[1])
	if ok && isZero(off) {
		if al := objAlloc(sum, root); al != nil && al.Len == ln {
			if v, ok2 := intOf(ln); ok2 {
				d.Bytes = v
				d.Buf = d.Read.Args[1]
			}
		}
	}
	if rules["R-WF-READ"] {
		c.Expect(d.Buf != nil, "R-WF-READ", name+"/buffer", wherePos(p, d.Read),
			fmt.Sprintf("the read fills the whole %d-byte buffer allocated for it", d.Bytes),
			fmt.Sprintf("the read target %v is not a whole constant-size buffer", d.Read.Args[1]))
	}
	// round call
	rcs := events(d.Sample.Body, func(e *Event) bool {
		return e.Kind == "call" && (e.Callee == pkgDetect+".Round15" || e.Callee == pkgDetect+".Round12")
	})
	if len(rcs) == 1 {
		d.RoundCall = rcs[0]
		d.Round = roundName(rcs[0].Callee)
	}
	d.ok = true
	return d
}

func intOf(t *Term) (int64, bool) {
	if t == nil {
		return 0, false
	}
	return t.IntVal()
}

// checkFreshSample: the slice judged is the very slice that was filled, under the nil-error guard (R-FRESH-SAMPLE).
func checkFreshSample(c *Check, p *Prog, name string, d *wfDesc, read, use *Event, useArg *Term) {
	S := d.X.S
	if read == nil || use == nil {
		c.Fail("R-FRESH-SAMPLE", name, "-", "no (fill, use) pair found")
		return
	}
	errT := d.errOf(read)
	okGuard := S.Canon(S.And(read.Guard, S.Cmp("==", errT, S.Nil)))
	same := useArg == read.Args[1]
	dom := S.Implies(use.Guard, okGuard) && use.Seq > read.Seq && use.Loop == read.Loop
	c.Expect(same && dom, "R-FRESH-SAMPLE", name, wherePos(p, use),
		fmt.Sprintf("%s judges exactly the buffer filled by the read of the same iteration, only on the err==nil edge", shortName(use.Callee)),
		fmt.Sprintf("the judged slice %v is not the filled buffer %v under the nil-error guard of the same iteration (use guard %v)", useArg, read.Args[1], use.Guard))
}

// accumulate checks R-WF-ACC in region `body` (the sample-loop body or the worker's job-loop body).
// tok is the per-sample index term (sample counter or job token); atomicCounters selects the parallel form.
func checkAccumulate(c *Check, p *Prog, name string, d *wfDesc, S *Store, body *Region, roundCall *Event, tok *Term, counters, dist *Term, atomicCounters bool, roundLen int64) {
	if roundCall == nil {
		c.Fail("R-WF-ACC", name, "-", "no round call found")
		return
	}
	res := S.SymTerm(roundCall.Res)
	var acc *LoopS
	for _, it := range body.Items {
		if l, ok := it.(*LoopS); ok {
			hasStore := false
			l.Body.Events(func(e *Event, _ []*LoopS) {
				if e.Kind == "store" && e.Root == dist {
					hasStore = true
				}
			})
			if hasStore {
				acc = l
			}
		}
	}
	if acc == nil {
		c.Fail("R-WF-ACC", name, wherePos(p, roundCall), "no loop storing the round results into the Q-value table")
		return
	}
	where := loopWhere(p, acc)
	it := iterTerm(S, acc)
	he := headExit(acc)
	// trip: len(result) or a constant equal to roundLen
	tripOK := false
	if acc.Trip != nil {
		if v, ok := acc.Trip.IntVal(); ok && v == roundLen {
			tripOK = true
		}
		if acc.Trip == S.Op("max0", TInt, S.Op("len", TInt, res)) {
			tripOK = true
		}
	}
	c.Expect(tripOK && he != nil, "R-WF-ACC", name+"/all-items", where,
		fmt.Sprintf("the accumulation loop visits every index of the round result (0..len-1, len=%d)", roundLen),
		fmt.Sprintf("the accumulation loop does not range over the whole round result (trip %v)", acc.Trip))
	if he == nil {
		return
	}
	cont := S.Not(he.Guard)
	qOK, cntOK := false, false
	var bad []string
	passT := S.mkOp("ld", TBool, res, it, fieldMarker(S, "Pass"))
	qT := S.mkOp("ld", TFloat, res, it, fieldMarker(S, "Q"))
	passGuard := S.Canon(S.And(cont, passT))
	acc.Body.Events(func(e *Event, loops []*LoopS) {
		switch e.Kind {
		case "store":
			if e.Root == dist {
				if len(e.Path) == 2 && e.Path[0] == it && e.Path[1] == tok && e.Val == qT && S.Equivalent(e.Guard, cont) && len(loops) == 0 {
					qOK = true
				} else {
					bad = append(bad, "Q-table store "+e.String(p))
				}
			} else if e.Root == counters {
				if atomicCounters {
					bad = append(bad, "plain store to shared counters "+e.String(p))
					return
				}
				// counters[idx] = ld + 1
				okc := false
				if len(e.Path) == 1 && e.Path[0] == it && S.Equivalent(e.Guard, passGuard) && len(loops) == 0 {
					as, cs, off := linParts(e.Val)
					if len(as) == 1 && cs[0].Int64() == 1 && off.Int64() == 1 && as[0].K == KSym && as[0].Sym.Kind == SRes {
						ld := as[0].Sym.Ev
						if ld != nil && ld.Kind == "load" && ld.Root == counters && samePath(ld.Path, e.Path) {
							okc = true
						}
					}
				}
				if okc {
					cntOK = true
				} else {
					bad = append(bad, "counter store "+e.String(p))
				}
			}
		case "call":
			if strings.HasPrefix(e.Callee, "sync/atomic.") {
				okc := false
				if e.Callee == "sync/atomic.AddInt32" && len(e.Args) == 2 && atomicCounters {
					a := e.Args[0]
					if a.Op == "addr" && len(a.Args) == 2 && a.Args[0] == counters && a.Args[1] == it && S.Equivalent(e.Guard, passGuard) {
						if v, ok := e.Args[1].IntVal(); ok && v == 1 {
							okc = true
						}
					}
				}
				if okc {
					cntOK = true
				} else {
					bad = append(bad, "atomic update "+e.String(p))
				}
			}
		}
	})
	if d.PassOnly {
		c.Expect(cntOK, "R-WF-ACC", name+"/pass-count", where, "counters[idx] is incremented by exactly 1 exactly when result[idx].Pass",
			"counters[idx] is not incremented by 1 exactly on the result[idx].Pass edge")
		return
	}
	c.Expect(qOK, "R-WF-ACC", name+"/Q", where, "Q-table[idx][sample] = result[idx].Q for every idx, sample = the sample index/job token",
		"no store of result[idx].Q into Q-table[idx][sample] with the expected indices")
	c.Expect(cntOK, "R-WF-ACC", name+"/pass-count", where, "counters[idx] is incremented by exactly 1 exactly when result[idx].Pass",
		"counters[idx] is not incremented by 1 exactly on the result[idx].Pass edge")
	if len(bad) > 0 {
		c.Fail("R-WF-ACC", name+"/other-writes", where, "unexpected writes in the accumulation loop: %s", strings.Join(bad, " | "))
	}
}

// roundLenOf returns the constant length of the slice returned by a round function.
func roundLenOf(p *Prog, name string) (int64, string) {
	fn := p.Func(pkgDetect, name)
	if fn == nil {
		return 0, "-"
	}
	x := NewExt(p, NewStore(), Config{Opaque: opaquePkgs([]string{pkgRoot, pkgFFT}, false, nil)})
	sum := x.Summarize(fn, nil, nil)
	if len(sum.Rets) != 1 || len(sum.Rets[0].Rets) != 1 {
		return 0, p.Pos(fn.Pos())
	}
	_, off, ln, ok := isSliceOf(sum.Rets[0].Rets[0])
	if !ok || !isZero(off) {
		return 0, p.Pos(fn.Pos())
	}
	v, isC := intOf(ln)
	if !isC && ln.Op == "len" && len(ln.Args) == 1 && ln.Args[0].Op == "at" && len(ln.Args[0].Args) == 1 {
		// sized from the registry itself: the registry is a literal that is never written (R-REGISTRY)
		if r := ln.Args[0].Args[0]; r.K == KSym && r.Sym.Kind == SGlobal && r.Sym.Canon == pkgRoot+".TestMethodArr" {
			if lit := p.GlobalLit(pkgRoot, "TestMethodArr"); lit != nil {
				v = int64(len(lit.Elems))
			}
		}
	}
	return v, p.Pos(fn.Pos())
}

type decision struct {
	countLoop, qLoop *LoopS
	countOK, qOK     bool
}

// checkDecide verifies R-WF-DECIDE / R-WF-RET on the top-level items that follow `after` (nil = from
// the sample loop). It returns true when the structure was recognised.
func checkDecide(c *Check, p *Prog, name string, d *wfDesc, s, items int64, prefixGuard *Term, extraOKRets func(e *Event) bool) {
	S := d.X.S
	sum := d.Sum
	where := p.Pos(d.Fn.Pos())
	alphaT, okA := constFloat(p, pkgRoot, "AlphaT")
	if !okA {
		c.Fail("R-WF-DECIDE", name+"/AlphaT", "-", "constant AlphaT not found")
		return
	}
	thr := S.mkOp("call:"+pkgDetect+".Threshold", TInt, S.Int(s))
	gTM := d.X.globalSym(p.Global(pkgRoot, "TestMethodArr"))
	var countLoops, qLoops []*LoopS
	failExit := map[*LoopS]*Exit{}
	var unknownLoops []*LoopS
	for _, it := range sum.Top.Items {
		l, ok := it.(*LoopS)
		if !ok || l == d.Sample {
			continue
		}
		evs := events(l.Body, func(e *Event) bool { return true })
		nested := false
		l.Body.AllLoops(func(*LoopS) { nested = true })
		he := headExit(l)
		if he == nil || nested || len(l.Exits) != 2 {
			continue
		}
		var fx *Exit
		for _, x := range l.Exits {
			if x != he {
				fx = x
			}
		}
		cont := S.Not(he.Guard)
		itT := iterTerm(S, l)
		b, _ := intOf(l.Bound)
		if len(evs) == 1 && evs[0].Kind == "load" && evs[0].Root == d.Counters && len(evs[0].Path) == 1 {
			want := S.Canon(S.And(cont, S.Cmp("<", S.SymTerm(evs[0].Res), thr)))
			if evs[0].Path[0] == itT && b == items && S.Equivalent(fx.Guard, want) {
				countLoops = append(countLoops, l)
				failExit[l] = fx
				continue
			}
			unknownLoops = append(unknownLoops, l)
			c.Fail("R-WF-DECIDE", name+"/pass-count-criterion", loopWhere(p, l),
				"loop over the pass counters is not `for every item i in 0..%d: counters[i] < Threshold(%d) -> fail` (bound %v, index %v, fail guard %v, expected %v)", items-1, s, l.Bound, evs[0].Path[0], fx.Guard, want)
			continue
		}
		if len(evs) == 1 && evs[0].Kind == "call" && evs[0].Callee == pkgDetect+".ThresholdQ" && len(evs[0].Args) == 1 {
			arg := evs[0].Args[0]
			want := S.Canon(S.And(cont, S.Cmp("<", S.SymTerm(evs[0].Res), S.Float(alphaT))))
			argOK := arg.Op == "at" && len(arg.Args) == 2 && arg.Args[0] == d.Dist && arg.Args[1] == itT
			if argOK && b == items && S.Equivalent(fx.Guard, want) {
				qLoops = append(qLoops, l)
				failExit[l] = fx
				continue
			}
			unknownLoops = append(unknownLoops, l)
			if d.CountOnly {
				continue
			}
			c.Fail("R-WF-DECIDE", name+"/uniformity-criterion", loopWhere(p, l),
				"loop over the Q-value table is not `for every item i in 0..%d: ThresholdQ(table[i]) < AlphaT(%g) -> fail` (bound %v, arg %v, fail guard %v, expected %v)", items-1, alphaT, l.Bound, arg, fx.Guard, want)
			continue
		}
	}
	c.Expect(len(countLoops) == 1, "R-WF-DECIDE", name+"/pass-count-criterion", where,
		fmt.Sprintf("every item 0..%d: counters[i] < Threshold(%d) (strict) leads to the failing return", items-1, s),
		fmt.Sprintf("expected exactly one pass-count decision loop over all %d items, found %d", items, len(countLoops)))
	if !d.CountOnly {
		c.Expect(len(qLoops) == 1, "R-WF-DECIDE", name+"/uniformity-criterion", where,
		fmt.Sprintf("every item 0..%d: ThresholdQ(table[i]) < AlphaT=%g (strict) leads to the failing return", items-1, alphaT),
		fmt.Sprintf("expected exactly one uniformity decision loop over all %d items, found %d", items, len(qLoops)))
	}
	// returns
	var okRet, unknown []*Event
	nFail := 0
	for _, r := range sum.Rets {
		if r.Dead || len(r.Rets) != 2 {
			continue
		}
		var failLoops []*LoopS
		normalOnly := true
		passed := map[*LoopS]bool{} // loops certainly left through their head (all items examined)
		for _, ex := range posExits(S, sum, r.Guard) {
			l := loopOfExit(sum, ex)
			if l == nil {
				continue
			}
			if failExit[l] == ex {
				failLoops = append(failLoops, l)
				normalOnly = false
			} else if ex != headExit(l) {
				normalOnly = false
			} else {
				passed[l] = true
			}
		}
		// the accepting return lies behind EVERY decision loop (a shortcut that accepts after the pass counts alone
		// skips the uniformity criterion)
		allPassed := true
		for _, l := range countLoops {
			if !passed[l] {
				allPassed = false
			}
		}
		if !d.CountOnly {
			for _, l := range qLoops {
				if !passed[l] {
					allPassed = false
				}
			}
		}
		bv, isB := r.Rets[0].BoolVal()
		switch {
		case len(failLoops) == 1 && isB && !bv:
			l := failLoops[0]
			if d.CountOnly {
				isCount := false
				for _, cl := range countLoops {
					if cl == l {
						isCount = true
					}
				}
				if !isCount {
					okRet = append(okRet, r)
					continue
				}
			}
			e := r.Rets[1]
			named := false
			nameT := S.mkOp("ld", TString, gTM, S.SymTerm(l.IterEnd), fieldMarker(S, "Name"))
			if e.Op == "call:fmt.Errorf" || e.Op == "call:errors.New" {
				named = mentions(e, nameT)
			}
			c.Expect(named, "R-WF-DECIDE", fmt.Sprintf("%s/error-names-item#%d", name, nFail), wherePos(p, r),
				"the failing return carries a fresh non-nil error built from TestMethodArr[i].Name with the same i as the failed comparison",
				fmt.Sprintf("failing return value %v does not name TestMethodArr[i].Name of the failing item", trunc(e.String(), 200)))
			nFail++
			okRet = append(okRet, r)
		case normalOnly && allPassed && isB && bv && r.Rets[1].IsNil():
			// the true return: must be reached through the normal exit of every decision loop
			okRet = append(okRet, r)
		default:
			if extraOKRets != nil && extraOKRets(r) {
				okRet = append(okRet, r)
			} else {
				unknown = append(unknown, r)
			}
		}
	}
	if d.CountOnly {
		// the failing return of the pass-count criterion must exist and be (false, error)
		c.Expect(nFail >= 1, "R-WF-RET", name+"/pass-count-fail-return", where, "a failed pass-count criterion returns (false, non-nil error)", "no (false, error) return for a failed pass-count criterion")
		return
	}
	if len(unknown) > 0 {
		var ds []string
		for _, r := range unknown {
			ds = append(ds, r.String(p))
		}
		c.Fail("R-WF-RET", name, where, "returns that are neither (true,nil) after all criteria, (false, error naming the failing item), nor (false, read error): %s", trunc(strings.Join(ds, " | "), 600))
	} else {
		c.Ok("R-WF-RET", name, where, "all %d returns are (true,nil) after both criteria passed, (false, non-nil error) on a failed criterion, or (false, read error)", len(okRet))
	}
	_ = prefixGuard
}

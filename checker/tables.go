package main

// Reading package-level tables and composite literals through the type-checked AST.

import (
	"go/ast"
	"go/constant"
	"go/token"
	"go/types"
)

// Lit is a parsed composite literal / constant expression.
type Lit struct {
	Const  constant.Value
	Elems  []*Lit          // slices/arrays (positional)
	Fields map[string]*Lit // structs
	Obj    types.Object    // identifier referring to a function / variable
	Pos    token.Pos
	Expr   ast.Expr
}

func (p *Prog) parseLit(pkg string, e ast.Expr) *Lit {
	info := p.Pkgs[pkg].TypesInfo
	l := &Lit{Pos: e.Pos(), Expr: e}
	if tv, ok := info.Types[e]; ok && tv.Value != nil {
		l.Const = tv.Value
		return l
	}
	switch x := e.(type) {
	case *ast.CompositeLit:
		t := info.TypeOf(x)
		if st, ok := t.Underlying().(*types.Struct); ok {
			l.Fields = map[string]*Lit{}
			for i, el := range x.Elts {
				if kv, ok := el.(*ast.KeyValueExpr); ok {
					l.Fields[kv.Key.(*ast.Ident).Name] = p.parseLit(pkg, kv.Value)
				} else if i < st.NumFields() {
					l.Fields[st.Field(i).Name()] = p.parseLit(pkg, el)
				}
			}
		} else {
			for _, el := range x.Elts {
				if kv, ok := el.(*ast.KeyValueExpr); ok {
					l.Elems = append(l.Elems, p.parseLit(pkg, kv.Value))
				} else {
					l.Elems = append(l.Elems, p.parseLit(pkg, el))
				}
			}
		}
	case *ast.Ident:
		l.Obj = info.ObjectOf(x)
	case *ast.SelectorExpr:
		l.Obj = info.ObjectOf(x.Sel)
	case *ast.UnaryExpr:
		if x.Op == token.AND {
			return p.parseLit(pkg, x.X)
		}
	case *ast.ParenExpr:
		return p.parseLit(pkg, x.X)
	}
	return l
}

// GlobalLit returns the initialiser of a package-level variable.
func (p *Prog) GlobalLit(pkg, name string) *Lit {
	pk := p.Pkgs[pkg]
	if pk == nil {
		return nil
	}
	for _, f := range pk.Syntax {
		for _, d := range f.Decls {
			gd, ok := d.(*ast.GenDecl)
			if !ok || gd.Tok != token.VAR {
				continue
			}
			for _, sp := range gd.Specs {
				vs := sp.(*ast.ValueSpec)
				for i, n := range vs.Names {
					if n.Name == name && i < len(vs.Values) {
						return p.parseLit(pkg, vs.Values[i])
					}
				}
			}
		}
	}
	return nil
}

func (l *Lit) Float() (float64, bool) {
	if l == nil || l.Const == nil {
		return 0, false
	}
	f, _ := constant.Float64Val(constant.ToFloat(l.Const))
	return f, true
}
func (l *Lit) Int() (int64, bool) {
	if l == nil || l.Const == nil {
		return 0, false
	}
	return constant.Int64Val(constant.ToInt(l.Const))
}
func (l *Lit) Str() (string, bool) {
	if l == nil || l.Const == nil || l.Const.Kind() != constant.String {
		return "", false
	}
	return constant.StringVal(l.Const), true
}

// globalStores lists SSA stores whose address is (derived from) a package-level variable, outside init functions.
func (p *Prog) globalName(pkg, name string) string { return pkg + "." + name }

package main

import (
	"os"
	"fmt"
	"strings"

	"golang.org/x/tools/go/ssa"
)

type singleDesc struct {
	X      *Ext
	Sum    *Summary
	Fn     *ssa.Function
	Source *Term
	Read   *Event
	ErrRet *Event
	Poker  *Event
}

func analyzeSingle(c *Check, p *Prog) *singleDesc {
	fn := p.Func(pkgDetect, "SingleDetect")
	if fn == nil {
		c.Fail("R-ANCHOR", "SingleDetect", "-", "function not found")
		return nil
	}
	x := NewExt(p, NewStore(), wfConfig())
	sum := x.Summarize(fn, nil, nil)
	if len(sum.Undecided) > 0 {
		c.Undecided("R-EXTRACT", "SingleDetect", p.Pos(fn.Pos()), "extractor does not cover: %s", strings.Join(sum.Undecided, "; "))
		return nil
	}
	// a table-driven choice of the pattern length (`for _, m := range []int{8, 4}`) is unrolled into its iterations
	unrollSmallLoops(x.S, sum)
	if os.Getenv("VERIF_DUMP_SD") != "" {
		fmt.Fprint(os.Stderr, sum.Dump(p))
	}
	d := &singleDesc{X: x, Sum: sum, Fn: fn, Source: sum.Params[0]}
	uses := sourceUses(sum, d.Source)
	for _, e := range uses {
		if e.Kind == "call" && isReadFull(e, x.S) && e.Args[0] == d.Source && d.Read == nil {
			d.Read = e
		}
	}
	if len(uses) != 1 {
		d.Read = nil
	}
	pk := events(sum.Top, func(e *Event) bool { return e.Kind == "call" && strings.HasPrefix(e.Callee, pkgRoot+".Poker") })
	if len(pk) == 1 {
		d.Poker = pk[0]
	}
	return d
}

func checkErrSingle(c *Check, p *Prog, d *singleDesc) {
	S := d.X.S
	where := p.Pos(d.Fn.Pos())
	if d.Read == nil || d.Read.Loop != nil || d.Read.Guard != S.True {
		c.Fail("R-ERR-SEQ", "SingleDetect", where, "the single read of source is not one unconditional io.ReadFull")
		return
	}
	errT := S.mkOp("extract1", TRef, S.SymTerm(d.Read.Res))
	errG := S.Not(S.Cmp("==", errT, S.Nil))
	var found *Event
	for _, r := range d.Sum.Rets {
		if r.Dead || len(r.Rets) != 2 {
			continue
		}
		if bv, ok := r.Rets[0].BoolVal(); ok && !bv && r.Rets[1] == errT && S.Equivalent(r.Guard, errG) {
			found = r
		}
	}
	var others []string
	if found != nil {
		d.Sum.Top.Events(func(e *Event, loops []*LoopS) {
			// an event inside a loop runs under the loop's entry condition as well
			if e != found && e.Seq > d.Read.Seq && !S.Exclusive(outerGuard(e, loops), errG) {
				others = append(others, e.String(p))
			}
		})
	}
	c.Expect(found != nil && len(others) == 0, "R-ERR-SEQ", "SingleDetect", wherePos(p, d.Read),
		"err != nil of the read returns (false, that err) at once; nothing else runs on that path",
		"the read error does not lead straight to `return false, err`: "+strings.Join(others, " | "))
}

func ruleC09(c *Check, p *Prog) {
	c.Explanation = "Decides error discipline on every source read of the seven workflows: R-ERR-SEQ (sequential + single-shot) the read's err != nil edge returns (false, err) with no loop/read/call in between; " +
		"parallel: R-DONE-ONCE wg.Done exactly once on every path of a job iteration (else Wait blocks forever), R-ERR-RECORD the error is published to the spawner, " +
		"R-ERR-CONSULT after the barrier every path to `true` passes the all-nil exit of a scan over all error slots and the non-nil edge returns (false, e), " +
		"R-CLOSE the jobs channel is closed on every return so workers exit, R-LOCK-PAIR every Lock is released on all paths, R-NO-RETRY / R-NO-PANIC-ON-ERR. " +
		"Boundedness: given these, the dispatcher performs exactly s sends and every iteration contains only bounded loops; the only unbounded waits are the source's own Read calls (premise)."
	c.Floor("R-ERR-SEQ", 4)
	c.Floor("R-DONE-ONCE", 3)
	c.Floor("R-ERR-RECORD", 3)
	c.Floor("R-ERR-CONSULT", 3)
	c.Floor("R-CLOSE", 3)
	for _, ref := range seqRefs {
		d := analyzeSeq(c, p, ref.Name, map[string]bool{})
		if d == nil || !d.ok {
			if d != nil {
				c.Fail("R-ERR-SEQ", ref.Name, p.Pos(d.Fn.Pos()), "no single full read of source found")
			}
			continue
		}
		checkErrSeq(c, p, ref.Name, d)
	}
	if sd := analyzeSingle(c, p); sd != nil {
		checkErrSingle(c, p, sd)
	}
	for _, ref := range fastRefs {
		d := analyzeFast(c, p, ref.Name)
		if d == nil || !d.ok {
			continue
		}
		checkDoneOnce(c, p, "R-DONE-ONCE", ref.Name+"/worker", d)
		checkErrParallel(c, p, ref.Name, d)
		checkWorkers(c, p, "R-WORKERS", ref.Name, d)
		checkPublishBeforeDone(c, p, "R-ERR-RECORD", ref.Name+"/before-done", d)
	}
}

func checkErrParallel(c *Check, p *Prog, name string, d *wfDesc) {
	S := d.X.S
	wwhere := p.Pos(d.GoEv.StaticCallee.Pos())
	where := p.Pos(d.Fn.Pos())
	if d.Read == nil {
		c.Fail("R-ERR-RECORD", name, wwhere, "no single read of source in the worker")
		return
	}
	errT := S.mkOp("extract1", TRef, S.SymTerm(d.Read.Res))
	errG := S.Canon(S.And(d.Read.Guard, S.Not(S.Cmp("==", errT, S.Nil))))
	// R-ERR-RECORD
	recorded := false
	held := lockRegions(d, d.Worker)
	d.Worker.Top.Events(func(e *Event, _ []*LoopS) {
		if e.Kind == "store" && e.Val == errT && S.Equivalent(e.Guard, errG) {
			if d.Errs != nil && e.Root == d.Errs && len(e.Path) == 1 && e.Path[0] == d.RecvTok {
				recorded = true
			} else if held(e) && e.Root.K == KSym && objAlloc(d.Sum, e.Root) != nil {
				recorded = true
			}
		}
		// ... or the job's slot is assigned the job's outcome on every path (errs[i] = sample(...)): under the error
		// condition the stored value is the error
		if e.Kind == "store" && d.Errs != nil && e.Root == d.Errs && len(e.Path) == 1 && e.Path[0] == d.RecvTok && e.Val != nil &&
			S.Implies(errG, e.Guard) && S.RestrictDeep(e.Val, errG) == errT {
			recorded = true
		}
		if e.Kind == "send" && e.Args[1] == errT && S.Equivalent(e.Guard, errG) {
			recorded = true
		}
	})
	c.Expect(recorded, "R-ERR-RECORD", name, wherePos(p, d.Read),
		"on err != nil the worker stores the error into the job's own slot of the shared error table (observable by the spawner after the barrier)",
		"the error returned by the source read is dropped on the error edge: nothing makes it observable to the spawner")
	// R-ERR-CONSULT
	l, fx := errScanLoop(d)
	consult := false
	detail := "no scan over all error slots between wg.Wait() and the decision"
	if l != nil && d.WaitEv != nil {
		after := true
		l.Body.Events(func(e *Event, _ []*LoopS) {
			if e.Seq < d.WaitEv.Seq {
				after = false
			}
		})
		isErr := fastErrorReturn(d)
		var failRet *Event
		trueNeedsScan := true
		he := headExit(l)
		for _, r := range d.Sum.Rets {
			if r.Dead {
				continue
			}
			if isErr(r) {
				failRet = r
			}
			if bv, ok := r.Rets[0].BoolVal(); ok && bv {
				has := false
				for _, ex := range posExits(S, d.Sum, r.Guard) {
					if ex == he {
						has = true
					}
				}
				if !has {
					trueNeedsScan = false
				}
			}
		}
		// returned value must be the loaded slot
		if failRet != nil && fx != nil {
			consult = after && trueNeedsScan
			if !after {
				detail = "the error scan runs before wg.Wait()"
			} else if !trueNeedsScan {
				detail = "a `true` return is reachable without passing the all-nil exit of the error scan"
			}
		} else {
			detail = "the non-nil edge of the error scan does not return (false, that error)"
		}
	}
	c.Expect(consult, "R-ERR-CONSULT", name, where,
		"after wg.Wait() all s error slots are scanned; a non-nil slot returns (false, that error); `true` is reachable only through the all-nil exit", detail)
	// R-CLOSE
	var msgs []string
	defs := events(d.Sum.Top, func(e *Event) bool { return e.Kind == "defer" && e.Callee == "builtin:close" && len(e.Args) == 1 && e.Args[0] == d.Jobs })
	explicit := events(d.Sum.Top, func(e *Event) bool { return e.Kind == "call" && e.Callee == "builtin:close" && len(e.Args) == 1 && e.Args[0] == d.Jobs })
	if len(defs) == 1 && defs[0].Guard == S.True && defs[0].Loop == nil {
		// every return is preceded by rundefers under the same guard
		for _, r := range d.Sum.Rets {
			if r.Dead {
				continue
			}
			okk := false
			d.Sum.Top.Events(func(e *Event, _ []*LoopS) {
				if e.Kind == "rundefers" && e.Seq <= r.Seq+0 && e.Seq > defs[0].Seq && S.Implies(r.Guard, e.Guard) {
					okk = true
				}
			})
			if r.Seq < defs[0].Seq {
				// returns before the defer is registered: workers must not have been started yet
				if r.Seq > d.GoEv.Seq {
					okk = false
				} else {
					okk = true
				}
			}
			if !okk {
				msgs = append(msgs, "return without running the deferred close: "+r.String(p))
			}
		}
	} else if len(explicit) > 0 {
		for _, r := range d.Sum.Rets {
			if r.Dead || r.Seq < d.GoEv.Seq {
				continue
			}
			okk := false
			for _, e := range explicit {
				if e.Seq < r.Seq && S.Implies(r.Guard, e.Guard) {
					okk = true
				}
			}
			if !okk {
				msgs = append(msgs, "return without close(jobs): "+r.String(p))
			}
		}
	} else {
		msgs = append(msgs, "close(jobs) is neither deferred unconditionally nor called before every return")
	}
	c.Expect(len(msgs) == 0, "R-CLOSE", name, where, "close(jobs) runs on every return path after the workers were started, so every worker's receive loop terminates", strings.Join(msgs, " | "))
	// R-LOCK-PAIR
	var lmsgs []string
	nl := 0
	d.Worker.Top.Events(func(e *Event, _ []*LoopS) {
		if e.Kind == "call" && e.Callee == "(*sync.Mutex).Lock" {
			nl++
			paired := false
			d.Worker.Top.Events(func(u *Event, _ []*LoopS) {
				if u.Kind == "call" && u.Callee == "(*sync.Mutex).Unlock" && u.Args[0] == e.Args[0] && u.Loop == e.Loop && u.Seq > e.Seq && S.Equivalent(u.Guard, e.Guard) {
					// nothing leaves the iteration in between
					esc := false
					d.Worker.Top.Events(func(x *Event, _ []*LoopS) {
						if (x.Kind == "panic" || x.Kind == "return") && x.Seq > e.Seq && x.Seq < u.Seq && !S.Exclusive(x.Guard, e.Guard) {
							esc = true
						}
					})
					if e.Loop != nil {
						for _, ex := range e.Loop.Exits {
							_ = ex
						}
					}
					if !esc {
						paired = true
					}
				}
			})
			if !paired {
				lmsgs = append(lmsgs, "Lock without Unlock on all paths: "+e.String(p))
			}
		}
	})
	c.Expect(len(lmsgs) == 0, "R-LOCK-PAIR", name, wwhere, fmt.Sprintf("every Lock (%d) is followed by Unlock of the same mutex on all paths of the iteration, including the error edge", nl), strings.Join(lmsgs, " | "))
	// R-NO-RETRY / R-NO-PANIC-ON-ERR
	var rmsgs []string
	if d.Read.Loop != d.JobLoop {
		rmsgs = append(rmsgs, "the read sits in a nested loop (retry for the same job)")
	}
	d.JobLoop.Body.Events(func(e *Event, loops []*LoopS) {
		if e.Kind == "panic" && !S.Exclusive(outerGuard(e, loops), errG) {
			rmsgs = append(rmsgs, "panic reachable on the error edge: "+e.String(p))
		}
	})
	c.Expect(len(rmsgs) == 0, "R-NO-RETRY", name, wherePos(p, d.Read), "the error edge neither retries the read for the same job nor panics", strings.Join(rmsgs, " | "))
}

// ---- C10 ----

func ruleC10(c *Check, p *Prog) {
	c.Explanation = "Decides that every sample judged consists of freshly read consecutive stream bytes for every read-size history: " +
		"R-READFULL every consumption of a workflow's source is io.ReadFull (or ReadAtLeast with min=len) on the whole sample buffer, and no io.Reader.Read is invoked anywhere in package detect " +
		"(io.ReadFull's contract: err == nil iff the buffer was filled completely); R-FRESH-SAMPLE the slice handed to the round function / poker test is the very slice filled, only on the err==nil edge of the same iteration; " +
		"R-SERIAL reads executed by worker goroutines are inside a critical section of one mutex shared by all workers (otherwise partial reads interleave and a sample is not a consecutive chunk)."
	c.Floor("R-READFULL", 8)
	c.Floor("R-FRESH-SAMPLE", 7)
	c.Floor("R-SERIAL", 3)
	checkSampleProvenance(c, p)
}

// checkSampleProvenance: R-READFULL / R-FRESH-SAMPLE / R-SERIAL for every workflow (C10; also a link of C14's rejection
// chain: what is judged is what was read from the workflow's own source).
func checkSampleProvenance(c *Check, p *Prog) {
	for _, ref := range seqRefs {
		d := analyzeSeq(c, p, ref.Name, map[string]bool{})
		if d == nil {
			continue
		}
		uses := sourceUses(d.Sum, d.Source)
		checkReadFullUses(c, p, ref.Name, d.X.S, uses, d.Source, nil, p.Pos(d.Fn.Pos()))
		if d.ok && d.RoundCall != nil && len(d.RoundCall.Args) == 1 {
			checkFreshSample(c, p, ref.Name, d, d.Read, d.RoundCall, d.RoundCall.Args[0])
		} else {
			c.Fail("R-FRESH-SAMPLE", ref.Name, p.Pos(d.Fn.Pos()), "no (fill, round) pair recognised")
		}
	}
	if sd := analyzeSingle(c, p); sd != nil {
		uses := sourceUses(sd.Sum, sd.Source)
		checkReadFullUses(c, p, "SingleDetect", sd.X.S, uses, sd.Source, nil, p.Pos(sd.Fn.Pos()))
		if sd.Read != nil && sd.Poker != nil && len(sd.Poker.Args) >= 1 {
			dd := &wfDesc{X: sd.X}
			checkFreshSample(c, p, "SingleDetect", dd, sd.Read, sd.Poker, sd.Poker.Args[0])
			// whole requested length
			root, off, ln, ok := isSliceOf(sd.Read.Args[1])
			al := objAlloc(sd.Sum, root)
			c.Expect(ok && isZero(off) && al != nil && al.Len == ln && len(sd.Sum.Params) > 1 && ln == sd.Sum.Params[1], "R-READFULL", "SingleDetect/length", wherePos(p, sd.Read),
				"the buffer read is make([]byte, numByte) in full", "the buffer read is not the whole make([]byte, numByte)")
		} else {
			c.Fail("R-FRESH-SAMPLE", "SingleDetect", p.Pos(sd.Fn.Pos()), "no (fill, poker) pair recognised")
		}
	}
	for _, ref := range fastRefs {
		d := analyzeFast(c, p, ref.Name)
		if d == nil || !d.ok {
			continue
		}
		S := d.X.S
		uses := sourceUses(d.Worker, d.Source)
		fu := sourceUses(d.Sum, d.Source)
		checkReadFullUses(c, p, ref.Name, S, append(uses, fu...), d.Source, d.GoEv, p.Pos(d.GoEv.StaticCallee.Pos()))
		if d.Read != nil && d.RoundCall != nil && len(d.RoundCall.Args) == 1 && isReadFull(d.Read, S) {
			checkFreshSample(c, p, ref.Name, d, d.Read, d.RoundCall, d.RoundCall.Args[0])
		} else {
			c.Fail("R-FRESH-SAMPLE", ref.Name, p.Pos(d.GoEv.StaticCallee.Pos()), "no (full read, round) pair recognised in the worker")
		}
		// R-SERIAL
		if d.Read != nil {
			held := lockRegions(d, d.Worker)
			c.Expect(held(d.Read), "R-SERIAL", ref.Name, wherePos(p, d.Read),
				"the worker's read of the shared source runs between Lock and Unlock of one mutex allocated once per workflow call and shared by all workers",
				"the worker's read of the shared source is not inside a critical section of a mutex shared by all workers: concurrent fills interleave, a sample is not a consecutive chunk")
		} else {
			c.Fail("R-SERIAL", ref.Name, p.Pos(d.GoEv.StaticCallee.Pos()), "no single read in worker")
		}
	}
	// package-wide: no raw Read on any io.Reader in package detect
	var dfns []*ssa.Function
	for _, fn := range p.AllSrcFuncs() {
		f := fn
		for f.Parent() != nil {
			f = f.Parent()
		}
		if f.Pkg != nil && f.Pkg.Pkg.Path() == pkgDetect {
			dfns = append(dfns, fn)
		}
	}
	raw, n := rawReadsIn(dfns, p.Pos)
	c.Expect(len(raw) == 0, "R-READFULL", "detect/no-raw-Read", "detect/detect_fast.go:1",
		fmt.Sprintf("no invocation of io.Reader.Read among the %d call sites of package detect", n),
		"raw Read (one call = one sample; short reads leave stale bytes): "+strings.Join(raw, ", "))
	c.Extra["positive_control"] = rawReadPositiveControl()
}

func checkReadFullUses(c *Check, p *Prog, name string, S *Store, uses []*Event, source *Term, goEv *Event, where string) {
	var bad []string
	n := 0
	for _, e := range uses {
		if e == goEv {
			continue
		}
		n++
		if e.Kind == "call" && isReadFull(e, S) && e.Args[0] == source {
			if _, off, _, ok := isSliceOf(e.Args[1]); ok && isZero(off) {
				continue
			}
		}
		bad = append(bad, e.String(p))
	}
	c.Expect(len(bad) == 0 && n >= 1, "R-READFULL", name, where,
		fmt.Sprintf("all %d consumption(s) of source are io.ReadFull(source, whole buffer)", n),
		"source consumed other than by io.ReadFull on the whole buffer: "+strings.Join(bad, " | "))
}

package main

// Exit-symbol axioms and splitting of multiplexed returns.

// exitAxiomsFor returns the facts about the exit symbols occurring in g: the exits of one loop are
// pairwise exclusive, and a top-level loop is left through one of its exits exactly when it was entered.
func exitAxiomsFor(S *Store, sum *Summary, g *Term) *Term {
	used := map[*Symbol]bool{}
	Walk(g, map[*Term]bool{}, func(t *Term) {
		if t.K == KSym && t.Sym.Kind == SExit {
			used[t.Sym] = true
		}
	})
	ax := S.True
	var add func(r *Region, top bool)
	add = func(r *Region, top bool) {
		for _, it := range r.Items {
			l, ok := it.(*LoopS)
			if !ok {
				continue
			}
			rel := false
			var syms []*Term
			for _, x := range l.Exits {
				if x.Sym != nil {
					syms = append(syms, S.SymTerm(x.Sym))
					if used[x.Sym] {
						rel = true
					}
				}
			}
			if rel {
				any := S.False
				for i := range syms {
					any = S.Or(any, syms[i])
					for j := i + 1; j < len(syms); j++ {
						ax = S.And(ax, S.Not(S.And(syms[i], syms[j])))
					}
				}
				// an exit taken means its condition held in the last iteration: the condition, rewritten over the
				// values that leave the loop, is implied by the exit flag (only the non-head exits carry information
				// beyond the iteration count)
				for _, x := range l.Exits {
					if x.Sym == nil || x.AtHead || x.Guard == nil || len(l.final) == 0 {
						continue
					}
					fg := S.Subst(x.Guard, l.final, map[*Term]*Term{})
					internal := DependsOn(fg, func(s *Symbol) bool {
						return (s.Loop != nil && s.Loop.inside(l)) || (s.Ev != nil && s.Ev.Loop != nil && s.Ev.Loop.inside(l))
					})
					if !internal {
						ax = S.And(ax, S.Or(S.Not(S.SymTerm(x.Sym)), fg))
					}
				}
				if top && len(syms) == len(l.Exits) {
					// entered <=> left through one of the exits (termination assumed)
					ax = S.And(ax, S.Or(S.Not(l.Guard), any))
					ax = S.And(ax, S.Or(l.Guard, S.Not(any)))
					// the entry guard may mention further exit symbols
					Walk(l.Guard, map[*Term]bool{}, func(t *Term) {
						if t.K == KSym && t.Sym.Kind == SExit && !used[t.Sym] {
							used[t.Sym] = true
						}
					})
				}
			}
			add(l.Body, false)
		}
	}
	// two passes so that symbols pulled in by entry guards get their axioms too
	add(sum.Top, true)
	ax = S.True
	add(sum.Top, true)
	return ax
}

// posExits lists the exits that are certainly taken under g.
func posExits(S *Store, sum *Summary, g *Term) []*Exit {
	ax := exitAxiomsFor(S, sum, g)
	var out []*Exit
	sum.Top.AllLoops(func(l *LoopS) {
		for _, x := range l.Exits {
			if x.Sym != nil && S.Implies(S.And(ax, g), S.SymTerm(x.Sym)) {
				out = append(out, x)
			}
		}
	})
	return out
}

func (x *Ext) splitReturns(sum *Summary) {
	S := x.S
	var out []*Event
	for _, r := range sum.Rets {
		if r.Dead {
			continue
		}
		needs := false
		for _, v := range r.Rets {
			if v.Op == "ite" {
				needs = true
			}
		}
		if !needs {
			out = append(out, r)
			continue
		}
		type leaf struct {
			g    *Term
			rets []*Term
		}
		var leaves []*leaf
		budget := 256
		var rec func(g *Term, rets []*Term)
		rec = func(g *Term, rets []*Term) {
			if budget <= 0 {
				return
			}
			budget--
			var c *Term
			for _, v := range rets {
				if v.Op == "ite" {
					c = v.Args[0]
					break
				}
			}
			if c == nil {
				// resolve pure exit-symbol booleans under the guard
				ax := exitAxiomsFor(S, sum, S.And(g, boolConj(S, rets)))
				rs := make([]*Term, len(rets))
				for i, v := range rets {
					rs[i] = v
					if v.Ty == TBool && v.K != KConst {
						if S.Implies(S.And(ax, g), v) {
							rs[i] = S.True
						} else if S.Implies(S.And(ax, g), S.Not(v)) {
							rs[i] = S.False
						}
					}
				}
				for _, l := range leaves {
					same := true
					for k := range rs {
						if l.rets[k] != rs[k] {
							same = false
						}
					}
					if same {
						l.g = S.Or(l.g, g)
						return
					}
				}
				leaves = append(leaves, &leaf{g, rs})
				return
			}
			for _, pol := range []bool{true, false} {
				cc := c
				if !pol {
					cc = S.Not(c)
				}
				ng := S.Canon(S.And(g, cc))
				ax := exitAxiomsFor(S, sum, ng)
				if S.Implies(S.And(ax, ng), S.False) {
					continue // infeasible
				}
				nr := make([]*Term, len(rets))
				for i, v := range rets {
					if v.Op == "ite" && v.Args[0] == c {
						if pol {
							nr[i] = v.Args[1]
						} else {
							nr[i] = v.Args[2]
						}
					} else {
						nr[i] = S.Restrict(v, ng)
					}
				}
				rec(ng, nr)
			}
		}
		rec(r.Guard, r.Rets)
		if budget <= 0 || len(leaves) <= 1 {
			out = append(out, r)
			continue
		}
		for _, l := range leaves {
			cp := *r
			cp.Rets = l.rets
			cp.Guard = S.Canon(l.g)
			cp.Virtual = true
			out = append(out, &cp)
		}
	}
	sum.Rets = out
}

func boolConj(S *Store, ts []*Term) *Term {
	g := S.True
	for _, t := range ts {
		if t.Ty == TBool && t.K != KConst {
			g = S.And(g, S.Or(t, S.Not(t))) // only to collect atoms; simplifies to true but keeps nothing
			_ = g
		}
	}
	// collect exit symbols explicitly
	acc := S.True
	for _, t := range ts {
		Walk(t, map[*Term]bool{}, func(u *Term) {
			if u.K == KSym && u.Sym.Kind == SExit {
				acc = S.And(acc, S.Or(u, S.mkOp("bxor", TBool, u, S.True)))
			}
		})
	}
	return acc
}

package main

import (
	"math/big"
	"fmt"
	"regexp"
	"strings"
)

var reCounters = regexp.MustCompile(`^\[\d*\]int(32)?$`)

// fillObjects identifies the counters / Q-table objects and their dimensions.
func fillObjects(d *wfDesc) string {
	S := d.X.S
	var cs, ds []*Event
	for _, it := range d.Sum.Top.Items {
		if e, ok := it.(*Event); ok && e.Kind == "alloc" && !e.Dead {
			if reCounters.MatchString(e.Type) {
				cs = append(cs, e)
			}
			if e.Type == "[][]float64" {
				ds = append(ds, e)
			}
		}
	}
	if len(cs) != 1 || len(ds) != 1 {
		return fmt.Sprintf("expected one pass-counter array and one [][]float64 Q-value table, found %d and %d", len(cs), len(ds))
	}
	d.Counters = S.SymTerm(cs[0].Res)
	d.Dist = S.SymTerm(ds[0].Res)
	d.Items, _ = intOf(cs[0].Len)
	d.DistOuter, _ = intOf(ds[0].Len)
	// rows: a top-level loop storing a fresh slice of constant length into every row
	for _, it := range d.Sum.Top.Items {
		l, ok := it.(*LoopS)
		if !ok {
			continue
		}
		var st []*Event
		l.Body.Events(func(e *Event, _ []*LoopS) {
			if e.Kind == "store" && e.Root == d.Dist {
				st = append(st, e)
			}
		})
		if len(st) != 1 || l == d.Sample {
			continue
		}
		e := st[0]
		tr, _ := intOf(l.Trip)
		root, off, ln, ok := isSliceOf(e.Val)
		if ok && isZero(off) && len(e.Path) == 1 && e.Path[0] == iterTerm(S, l) && tr == d.DistOuter {
			if al := objAlloc(d.Sum, root); al != nil && al.Loop == l && al.Len == ln {
				d.DistInner, _ = intOf(ln)
			}
		}
		// ... or row i is the i-th length-s window of ONE backing array of outer*s elements (disjoint rows)
		if ok && len(e.Path) == 1 && e.Path[0] == iterTerm(S, l) && tr == d.DistOuter {
			if w, isC := intOf(ln); isC && w > 0 && off == S.MulC(iterTerm(S, l), big.NewInt(w)) {
				if al := objAlloc(d.Sum, root); al != nil && al.Loop == nil {
					if tot, isT := intOf(al.Len); isT && tot == w*d.DistOuter {
						d.DistInner = w
					}
				}
			}
		}
	}
	return ""
}

func descString(s, bytes int64, round string, items, do, di int64) string {
	return fmt.Sprintf("(samples=%d, sampleBytes=%d, round=%s, counters=%d, Q-table=%dx%d)", s, bytes, round, items, do, di)
}

func checkDesc(c *Check, p *Prog, rule string, ref wfRef, d *wfDesc) bool {
	got := descString(d.S, d.Bytes, d.Round, d.Items, d.DistOuter, d.DistInner)
	want := descString(ref.S, ref.Bytes, ref.Round, ref.Items, ref.Items, ref.S)
	rl, _ := roundLenOf(p, ref.Round)
	ok := got == want && rl == ref.Items
	return c.Expect(ok, rule, ref.Name, p.Pos(d.Fn.Pos()),
		"workflow descriptor "+got+" equals the GM/T parameters; the round function returns "+fmt.Sprint(rl)+" results",
		"workflow descriptor "+got+" differs from the required "+want+fmt.Sprintf(" (round result length %d)", rl))
}

// seqErrorReturn recognises `return false, err` of the sample read on the error exit of the sample loop.
func seqErrorReturn(d *wfDesc) func(e *Event) bool {
	S := d.X.S
	return func(r *Event) bool {
		if d.Read == nil || d.Sample == nil || len(r.Rets) != 2 {
			return false
		}
		bv, isB := r.Rets[0].BoolVal()
		if !isB || bv {
			return false
		}
		e := r.Rets[1]
		if !(e.Op == "extract1" && e.Args[0].K == KSym && e.Args[0].Sym.Kind == SOut && e.Args[0].Sym.Obj == d.Read.Res) {
			return false
		}
		// guard is exactly the error exit of the sample loop
		var ex *Exit
		for _, x := range d.Sample.Exits {
			if x != headExit(d.Sample) {
				ex = x
			}
		}
		if ex == nil || ex.Sym == nil || len(d.Sample.Exits) != 2 {
			return false
		}
		errT := d.errOf(d.Read)
		want := S.Canon(S.And(d.Read.Guard, S.Not(S.Cmp("==", errT, S.Nil))))
		pe := posExits(S, d.Sum, r.Guard)
		return len(pe) == 1 && pe[0] == ex && S.Equivalent(ex.Guard, want)
	}
}

func ruleC07(c *Check, p *Prog) {
	c.Explanation = "Decides, on the if-converted loop-nest summary of FactoryDetect/PowerOnDetect/PeriodDetect (inlined callees, constants propagated): " +
		"R-WF-DESC descriptor (samples, sample bytes, round function, item count, table shape) equals (50,125000,Round15,15)/(20,125000,Round15,15)/(20,2500,Round12,12); " +
		"R-WF-READ exactly one io.ReadFull(source, whole buffer) per iteration and no other use of source (=> exactly s*sampleBytes bytes requested, later bytes cannot matter); " +
		"R-WF-ACC Q-table[idx][i]=result[idx].Q and counters[idx]++ exactly on Pass for every idx; " +
		"R-WF-DECIDE every item: counters[i] < Threshold(s) (strict) and ThresholdQ(table[i]) < AlphaT (strict) lead to (false, error naming item i); " +
		"R-WF-RET every return is (true,nil)/(false,non-nil). NOT decided: the values the fifteen tests return for a sample (C01-C05) and Threshold/ThresholdQ themselves (C12)."
	c.Floor("R-WF-DESC", 3)
	c.Floor("R-WF-READ", 9)
	c.Floor("R-WF-ACC", 9)
	c.Floor("R-WF-DECIDE", 12)
	c.Floor("R-WF-RET", 3)
	// the two criteria themselves (shared with C12): threshold closed form and the uniformity statistic
	ex := c.Explanation
	ruleC12(c, p)
	c.Explanation = ex + " The threshold closed form and the uniformity statistic are decided by C12's obligations, re-evaluated here."
	checkRegistry(c, p)
	// the round functions the descriptors refer to: results[i] = TestMethodArr[i].Runner(data) for all 15 / the first 12 items
	checkRound(c, p, "Round15", 15, false)
	checkRound(c, p, "Round12", 12, true)
	for _, ref := range seqRefs {
		d := analyzeSeq(c, p, ref.Name, map[string]bool{"R-WF-READ": true})
		if d == nil || !d.ok {
			continue
		}
		if msg := fillObjects(d); msg != "" {
			c.Fail("R-WF-DESC", ref.Name, p.Pos(d.Fn.Pos()), "%s", msg)
			continue
		}
		checkDesc(c, p, "R-WF-DESC", ref, d)
		S := d.X.S
		tok := iterTerm(S, d.Sample)
		rl, _ := roundLenOf(p, d.Round)
		checkAccumulate(c, p, ref.Name, d, S, d.Sample.Body, d.RoundCall, tok, d.Counters, d.Dist, false, rl)
		// the round call judges the filled buffer on the nil edge
		if d.RoundCall != nil {
			okArg := len(d.RoundCall.Args) == 1 && d.RoundCall.Args[0] == d.Buf
			c.Expect(okArg, "R-WF-READ", ref.Name+"/judged-buffer", wherePos(p, d.RoundCall), "the round function is applied to the buffer just filled", "the round function is not applied to the filled buffer")
		}
		checkDecide(c, p, ref.Name, d, ref.S, ref.Items, nil, seqErrorReturn(d))
	}
}

// ---- C09 / C10 sequential parts ----

func checkErrSeq(c *Check, p *Prog, name string, d *wfDesc) {
	S := d.X.S
	if d.Read == nil {
		c.Fail("R-ERR-SEQ", name, p.Pos(d.Fn.Pos()), "no source read found")
		return
	}
	isErrRet := seqErrorReturn(d)
	var found *Event
	for _, r := range d.Sum.Rets {
		if !r.Dead && isErrRet(r) {
			found = r
		}
	}
	if found == nil {
		c.Fail("R-ERR-SEQ", name, wherePos(p, d.Read), "the error result of the sample read does not lead straight to `return false, err` with that same error")
		return
	}
	// nothing else runs on the error path
	ax := exitAxioms(S, d.Sum)
	var others []string
	for _, it := range d.Sum.Top.Items {
		switch e := it.(type) {
		case *Event:
			if e.Dead || e == found || e.Kind == "rundefers" || e.Kind == "return" || e.Seq < d.Read.Seq {
				continue
			}
			if !S.Implies(S.And(ax, e.Guard), S.Not(found.Guard)) {
				others = append(others, e.String(p))
			}
		case *LoopS:
			if e == d.Sample || e.ID < d.Sample.ID {
				continue
			}
			if !S.Implies(S.And(ax, e.Guard), S.Not(found.Guard)) {
				others = append(others, "loop at "+loopWhere(p, e))
			}
		}
	}
	// within the iteration nothing follows the read on the error edge
	errT := d.errOf(d.Read)
	errG := S.Canon(S.And(d.Read.Guard, S.Not(S.Cmp("==", errT, S.Nil))))
	d.Sample.Body.Events(func(e *Event, loops []*LoopS) {
		if e.Seq > d.Read.Seq && !S.Exclusive(outerGuard(e, loops), errG) {
			others = append(others, e.String(p))
		}
	})
	c.Expect(len(others) == 0, "R-ERR-SEQ", name, wherePos(p, found),
		"err != nil of the read leaves the sample loop at once and returns (false, that err); no read, loop or call lies on that path",
		"events on the error path before the return: "+strings.Join(others, " | "))
}

package main

// SSA -> terms: value translation for one function instance.

import (
	"fmt"
	"go/constant"
	"go/token"
	"go/types"
	"strings"

	"golang.org/x/tools/go/ssa"
)

type Config struct {
	// Opaque decides whether a static in-module callee is kept as a call instead of being inlined.
	// pure=true makes it a pure term when all its reference arguments are read-only.
	Opaque   func(callee *ssa.Function) (opaque bool, pure bool)
	MaxDepth int
	// PureInvoke lists interface methods treated as pure observers (e.g. os.FileInfo.IsDir).
	PureInvoke map[string]bool
}

type Ext struct {
	S    *Store
	P    *Prog
	Cfg  Config
	cfgs map[*ssa.Function]*funcCFG
	nloop int
	nseq  int
	Und  []string // undecided notes
	cellCur map[*Symbol]*Term
	objOf   map[ssa.Value]*Symbol
	globSym map[*ssa.Global]*Symbol
	funcSym map[*ssa.Function]*Symbol
	bltSym  map[string]*Symbol
	paramRootStored map[*Symbol]bool
	objAlias map[*Symbol]*Term
	objAliasAt map[*Symbol]aliasSite // where (instance, block) the copy was made
	// fieldCells: a local struct that never leaves the function except as the pointer receiver / argument of callees
	// that are inlined (an accumulator object with methods) is the bundle of its fields: one cell per field
	fieldCells map[*Symbol][]*Symbol
	cellLoopDepth map[*Symbol]int // number of enclosing loops at the allocation of a field cell
	ifaceTypes    map[string]types.Type // dynamic types behind "iface:<T>" boxes
}

func NewExt(p *Prog, s *Store, cfg Config) *Ext {
	if cfg.MaxDepth == 0 {
		cfg.MaxDepth = 6
	}
	return &Ext{S: s, P: p, Cfg: cfg, cfgs: map[*ssa.Function]*funcCFG{}, cellCur: map[*Symbol]*Term{},
		objOf: map[ssa.Value]*Symbol{}, globSym: map[*ssa.Global]*Symbol{}, funcSym: map[*ssa.Function]*Symbol{},
		bltSym: map[string]*Symbol{}, paramRootStored: map[*Symbol]bool{}, objAlias: map[*Symbol]*Term{}, objAliasAt: map[*Symbol]aliasSite{}, fieldCells: map[*Symbol][]*Symbol{}}
}

func (x *Ext) und(format string, a ...interface{}) {
	x.Und = append(x.Und, fmt.Sprintf(format, a...))
}

func (x *Ext) cfgOf(fn *ssa.Function) *funcCFG {
	c := x.cfgs[fn]
	if c == nil {
		c = buildCFG(fn)
		x.cfgs[fn] = c
		if c.Err != nil {
			x.und("%v", c.Err)
		}
	}
	return c
}

func tyClass(t types.Type) TyClass {
	switch u := t.Underlying().(type) {
	case *types.Basic:
		info := u.Info()
		switch {
		case info&types.IsBoolean != 0:
			return TBool
		case info&types.IsInteger != 0:
			return TInt
		case info&types.IsFloat != 0:
			return TFloat
		case info&types.IsComplex != 0:
			return TComplex
		case info&types.IsString != 0:
			return TString
		}
		if u.Kind() == types.UntypedNil || u.Kind() == types.UnsafePointer {
			return TRef
		}
		return TOther
	case *types.Pointer, *types.Slice, *types.Map, *types.Chan, *types.Signature, *types.Interface:
		return TRef
	case *types.Tuple:
		return TTuple
	}
	return TOther
}

func isAggregate(t types.Type) bool {
	switch t.Underlying().(type) {
	case *types.Struct, *types.Array:
		return true
	}
	return false
}

// Inst is one function instance (function + bound arguments) being walked.
type aliasSite struct {
	in *Inst
	b  *ssa.BasicBlock
}

type Inst struct {
	callSite ssa.Value // the call this instance was inlined for (nil at top level)
	cellableBusy map[*ssa.Alloc]bool
	X      *Ext
	Fn     *ssa.Function
	Args   []*Term
	Free   []*Term
	vals   map[ssa.Value]*Term
	Parent *Inst
	depth  int
	cfg    *funcCFG
	// walking state
	region  []*Region // stack
	loops   []*LoopS  // stack of enclosing loops (across inlining)
	valLoop map[ssa.Value]*LoopS
	rets    []*Event
	sum     *Summary
	curB    *ssa.BasicBlock
	deferEvs []*Event // defer events of this (inlined) instance, replayed at its RunDefers
	narrow  *Term // set by inline(): the condition under which the inlined callee returned (it may also panic)
}

func (x *Ext) globalSym(g *ssa.Global) *Term {
	sy := x.globSym[g]
	if sy == nil {
		sy = x.S.NewSym(SGlobal, g.Pkg.Pkg.Name()+"."+g.Name(), TRef)
		sy.Obj = g
		sy.Canon = g.Pkg.Pkg.Path() + "." + g.Name()
		x.globSym[g] = sy
	}
	return x.S.SymTerm(sy)
}

func (x *Ext) funcTerm(f *ssa.Function) *Term {
	sy := x.funcSym[f]
	if sy == nil {
		sy = x.S.NewSym(SFunc, f.Name(), TRef)
		sy.Obj = f
		sy.Canon = canonFunc(f)
		x.funcSym[f] = sy
	}
	return x.S.SymTerm(sy)
}

func (x *Ext) builtinTerm(name string) *Term {
	sy := x.bltSym[name]
	if sy == nil {
		sy = x.S.NewSym(SBuiltin, name, TRef)
		sy.Canon = "builtin:" + name
		x.bltSym[name] = sy
	}
	return x.S.SymTerm(sy)
}

func (in *Inst) curLoop() *LoopS {
	if len(in.loops) == 0 {
		return nil
	}
	return in.loops[len(in.loops)-1]
}

func (in *Inst) newSym(kind, name string, ty TyClass) *Symbol {
	sy := in.X.S.NewSym(kind, name, ty)
	sy.Loop = in.curLoop()
	return sy
}

// ---- address / slice helpers ----
// slice value : op "slice"(root, off, len)
// reference stored at a location : op "at"(root, path...)
// address     : op "addr"(root, path...)

func (in *Inst) sliceParts(t *Term) (root, off, ln *Term) {
	S := in.X.S
	if t.Op == "slice" {
		return t.Args[0], t.Args[1], t.Args[2]
	}
	return t, S.Int(0), S.Op("len", TInt, t)
}

func (in *Inst) lenOf(t *Term) *Term {
	if t.Op == "slice" {
		return t.Args[2]
	}
	if t.K == KSym && t.Sym.Attr != nil && t.Sym.Attr["len"] != nil {
		return t.Sym.Attr["len"]
	}
	if s, ok := t.StrVal(); ok {
		return in.X.S.Int(int64(len(s)))
	}
	return in.X.S.Op("len", TInt, t)
}

func (in *Inst) mkAddr(base *Term, idx *Term) *Term {
	S := in.X.S
	switch base.Op {
	case "at":
		args := append(append([]*Term{}, base.Args...), idx)
		return S.mkOp("addr", TRef, args...)
	case "addr": // pointer-to-array addressed as array
		args := append(append([]*Term{}, base.Args...), idx)
		return S.mkOp("addr", TRef, args...)
	}
	return S.mkOp("addr", TRef, base, idx)
}

func fieldMarker(S *Store, name string) *Term { return S.Str("." + name) }

func (in *Inst) val(v ssa.Value) *Term { return in.use(v, in.curB) }

func (in *Inst) valRaw(v ssa.Value) *Term {
	if t, ok := in.vals[v]; ok {
		return t
	}
	S := in.X.S
	var t *Term
	switch v := v.(type) {
	case *ssa.Const:
		t = in.constTerm(v)
	case *ssa.Parameter:
		idx := -1
		for i, p := range in.Fn.Params {
			if p == v {
				idx = i
			}
		}
		if idx >= 0 && idx < len(in.Args) && in.Args[idx] != nil {
			t = in.Args[idx]
		} else {
			sy := S.NewSym(SParam, v.Name(), tyClass(v.Type()))
			sy.Idx = idx
			sy.Obj = v
			t = S.SymTerm(sy)
		}
	case *ssa.FreeVar:
		idx := -1
		for i, p := range in.Fn.FreeVars {
			if p == v {
				idx = i
			}
		}
		if idx >= 0 && idx < len(in.Free) && in.Free[idx] != nil {
			t = in.Free[idx]
		} else {
			sy := S.NewSym(SFree, v.Name(), tyClass(v.Type()))
			sy.Idx = idx
			sy.Obj = v
			t = S.SymTerm(sy)
		}
	case *ssa.Global:
		t = in.X.globalSym(v)
	case *ssa.Function:
		t = in.X.funcTerm(v)
	case *ssa.Builtin:
		t = in.X.builtinTerm(v.Name())
	default:
		// instruction values must have been computed by the walk
		in.X.und("%s: value %s (%T) used before definition in walk", in.Fn, v.Name(), v)
		sy := S.NewSym(SOpaque, v.Name(), tyClass(v.Type()))
		t = S.SymTerm(sy)
	}
	in.vals[v] = t
	return t
}

func (in *Inst) constTerm(c *ssa.Const) *Term {
	S := in.X.S
	ty := tyClass(c.Type())
	if c.Value == nil {
		switch ty {
		case TRef:
			return S.Nil
		case TInt:
			return S.Int(0)
		case TFloat:
			return S.Float(0)
		case TBool:
			return S.False
		case TString:
			return S.Str("")
		}
		// zero aggregate
		return S.mkOp("zero:"+c.Type().String(), ty)
	}
	switch ty {
	case TInt:
		return S.Const(constant.ToInt(c.Value), TInt)
	case TFloat:
		f, _ := constant.Float64Val(constant.ToFloat(c.Value))
		return S.Float(f)
	case TBool:
		return S.Bool(constant.BoolVal(c.Value))
	case TString:
		return S.Str(constant.StringVal(c.Value))
	case TComplex:
		re, _ := constant.Float64Val(constant.Real(c.Value))
		im, _ := constant.Float64Val(constant.Imag(c.Value))
		return S.Op("complex", TComplex, S.Float(re), S.Float(im))
	}
	return S.Const(c.Value, ty)
}

var binOpNames = map[token.Token][2]string{ // [int, float]
	token.ADD: {"iadd", "fadd"}, token.SUB: {"isub", "fsub"}, token.MUL: {"imul", "fmul"},
	token.QUO: {"idiv", "fdiv"}, token.REM: {"imod", ""}, token.AND: {"and", ""}, token.OR: {"or", ""},
	token.XOR: {"xor", ""}, token.SHL: {"shl", ""}, token.SHR: {"shr", ""}, token.AND_NOT: {"andnot", ""},
}

func (in *Inst) binop(v *ssa.BinOp) *Term {
	S := in.X.S
	a, b := in.val(v.X), in.val(v.Y)
	switch v.Op {
	case token.EQL, token.NEQ, token.LSS, token.LEQ, token.GTR, token.GEQ:
		return S.Cmp(v.Op.String(), a, b)
	}
	ty := tyClass(v.Type())
	switch ty {
	case TInt:
		name := binOpNames[v.Op][0]
		if name == "" {
			break
		}
		if name == "and" || name == "or" || name == "xor" {
			if a.id > b.id {
				a, b = b, a
			}
			if ai, ok := a.IntVal(); ok {
				if bi, ok2 := b.IntVal(); ok2 {
					switch name {
					case "and":
						return S.Int(ai & bi)
					case "or":
						return S.Int(ai | bi)
					case "xor":
						return S.Int(ai ^ bi)
					}
				}
			}
		}
		return S.Op(name, TInt, a, b)
	case TFloat:
		name := binOpNames[v.Op][1]
		if name == "" {
			break
		}
		return in.floatOp(name, a, b)
	case TComplex:
		name := map[token.Token]string{token.ADD: "cadd", token.SUB: "csub", token.MUL: "cmul", token.QUO: "cdiv"}[v.Op]
		if name != "" {
			return S.Op(name, TComplex, a, b)
		}
	case TString:
		if v.Op == token.ADD {
			if x, ok := a.StrVal(); ok {
				if y, ok2 := b.StrVal(); ok2 {
					return S.Str(x + y)
				}
			}
			return S.Op("sconcat", TString, a, b)
		}
	case TBool:
		switch v.Op {
		case token.AND:
			return S.And(a, b)
		case token.OR:
			return S.Or(a, b)
		}
	}
	in.X.und("%s: unsupported binop %s on %s", in.Fn, v.Op, v.Type())
	return S.SymTerm(in.newSym(SOpaque, v.Name(), ty))
}

func (in *Inst) floatOp(name string, a, b *Term) *Term {
	S := in.X.S
	if x, ok := a.FloatVal(); ok && a.K == KConst {
		if y, ok2 := b.FloatVal(); ok2 && b.K == KConst {
			switch name {
			case "fadd":
				return S.Float(x + y)
			case "fsub":
				return S.Float(x - y)
			case "fmul":
				return S.Float(x * y)
			case "fdiv":
				if y != 0 {
					return S.Float(x / y)
				}
			}
		}
	}
	if name == "fadd" || name == "fmul" {
		if a.id > b.id {
			a, b = b, a
		}
	}
	return S.Op(name, TFloat, a, b)
}

func (in *Inst) convert(v ssa.Value, x ssa.Value) *Term {
	S := in.X.S
	a := in.val(x)
	from, to := tyClass(x.Type()), tyClass(v.Type())
	switch {
	case from == TInt && to == TFloat:
		return S.Op("i2f", TFloat, a)
	case from == TFloat && to == TInt:
		return S.Op("f2i", TInt, a)
	case from == TInt && to == TInt:
		fb, _ := x.Type().Underlying().(*types.Basic)
		tb, _ := v.Type().Underlying().(*types.Basic)
		if fb != nil && tb != nil {
			fs, ts := intBits(fb), intBits(tb)
			if ts < fs {
				return S.Op("narrow:"+tb.Name(), TInt, a)
			}
		}
		return a
	case from == TFloat && to == TFloat:
		tb, _ := v.Type().Underlying().(*types.Basic)
		if tb != nil && tb.Kind() == types.Float32 {
			return S.Op("f32", TFloat, a)
		}
		return a
	case from == to:
		return a
	case from == TString || to == TString:
		return S.Op("conv:"+v.Type().String(), to, a)
	}
	return S.Op("conv:"+v.Type().String(), to, a)
}

func intBits(b *types.Basic) int {
	switch b.Kind() {
	case types.Int8, types.Uint8:
		return 8
	case types.Int16, types.Uint16:
		return 16
	case types.Int32, types.Uint32:
		return 32
	}
	return 64
}

// callName gives the canonical name of a call target.
func (in *Inst) callName(c *ssa.CallCommon) (name string, static *ssa.Function, fnTerm *Term) {
	if c.IsInvoke() {
		return "invoke:" + c.Method.Name(), nil, nil
	}
	switch f := c.Value.(type) {
	case *ssa.Function:
		return stdAlias(canonFunc(f)), f, in.X.funcTerm(f)
	case *ssa.Builtin:
		return "builtin:" + f.Name(), nil, in.X.builtinTerm(f.Name())
	case *ssa.MakeClosure:
		fn := f.Fn.(*ssa.Function)
		return "closure:" + fn.String(), fn, in.val(f)
	}
	ft := in.val(c.Value)
	if ft.K == KSym && ft.Sym.Kind == SFunc {
		f := ft.Sym.Obj.(*ssa.Function)
		return canonFunc(f), f, ft
	}
	if ft.Op == "closure" {
		f := ft.Args[0].Sym.Obj.(*ssa.Function)
		return "closure:" + f.String(), f, ft
	}
	return "dynamic", nil, ft
}

var pureStd = map[string]bool{}

func isPureStd(name string) bool {
	if strings.HasPrefix(name, "math.") || strings.HasPrefix(name, "math/bits.") || strings.HasPrefix(name, "math/cmplx.") {
		return true
	}
	switch name {
	case "strings.HasSuffix", "strings.HasPrefix", "path.Base", "path/filepath.Base", "path/filepath.Dir", "path.Dir",
		"path/filepath.Join", "path.Join", "strconv.Itoa", "errors.New":
		return true
	}
	return false
}

// stdAlias maps deprecated standard-library entry points to their successors (identical behaviour by documentation).
func stdAlias(name string) string {
	switch name {
	case "io/ioutil.ReadFile":
		return "os.ReadFile"
	case "io/ioutil.WriteFile":
		return "os.WriteFile"
	case "io/ioutil.ReadAll":
		return "io.ReadAll"
	}
	return name
}

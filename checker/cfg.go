package main

// Natural-loop forest over go/ssa basic blocks.

import (
	"fmt"
	"sort"

	"golang.org/x/tools/go/ssa"
)

type loopInfo struct {
	Header  *ssa.BasicBlock
	Blocks  map[*ssa.BasicBlock]bool
	Parent  *loopInfo
	Childs  []*loopInfo
	Latches []*ssa.BasicBlock
	depth   int
}

type funcCFG struct {
	Fn      *ssa.Function
	Loops   []*loopInfo                     // all loops, outermost first
	ByHead  map[*ssa.BasicBlock]*loopInfo   // header -> loop
	Inner   map[*ssa.BasicBlock]*loopInfo   // innermost loop containing block (nil = none)
	Reach   map[*ssa.BasicBlock]bool        // reachable from entry (excludes recover block)
	Err     error
}

func (l *loopInfo) contains(o *loopInfo) bool {
	for ; o != nil; o = o.Parent {
		if o == l {
			return true
		}
	}
	return false
}

func buildCFG(fn *ssa.Function) *funcCFG {
	c := &funcCFG{Fn: fn, ByHead: map[*ssa.BasicBlock]*loopInfo{}, Inner: map[*ssa.BasicBlock]*loopInfo{}, Reach: map[*ssa.BasicBlock]bool{}}
	if len(fn.Blocks) == 0 {
		return c
	}
	// reachability
	var stack []*ssa.BasicBlock
	stack = append(stack, fn.Blocks[0])
	c.Reach[fn.Blocks[0]] = true
	for len(stack) > 0 {
		b := stack[len(stack)-1]
		stack = stack[:len(stack)-1]
		for _, s := range b.Succs {
			if !c.Reach[s] {
				c.Reach[s] = true
				stack = append(stack, s)
			}
		}
	}
	// back edges: u->h with h dominating u
	for _, u := range fn.Blocks {
		if !c.Reach[u] {
			continue
		}
		for _, h := range u.Succs {
			if h.Dominates(u) {
				l := c.ByHead[h]
				if l == nil {
					l = &loopInfo{Header: h, Blocks: map[*ssa.BasicBlock]bool{h: true}}
					c.ByHead[h] = l
				}
				l.Latches = append(l.Latches, u)
				// collect body: all blocks that reach u without passing h
				var st []*ssa.BasicBlock
				if !l.Blocks[u] {
					l.Blocks[u] = true
					st = append(st, u)
				}
				for len(st) > 0 {
					x := st[len(st)-1]
					st = st[:len(st)-1]
					for _, p := range x.Preds {
						if !l.Blocks[p] && c.Reach[p] {
							l.Blocks[p] = true
							st = append(st, p)
						}
					}
				}
			}
		}
	}
	// reducibility: every retreating edge must be a back edge. With dominator-defined back edges
	// removed the graph must be acyclic.
	if err := c.checkAcyclic(); err != nil {
		c.Err = err
	}
	for _, l := range c.ByHead {
		c.Loops = append(c.Loops, l)
	}
	sort.Slice(c.Loops, func(i, j int) bool {
		if len(c.Loops[i].Blocks) != len(c.Loops[j].Blocks) {
			return len(c.Loops[i].Blocks) > len(c.Loops[j].Blocks)
		}
		return c.Loops[i].Header.Index < c.Loops[j].Header.Index
	})
	// nesting: parent = smallest strictly-containing loop
	for _, l := range c.Loops {
		var best *loopInfo
		for _, o := range c.Loops {
			if o == l || !o.Blocks[l.Header] || len(o.Blocks) <= len(l.Blocks) {
				continue
			}
			if best == nil || len(o.Blocks) < len(best.Blocks) {
				best = o
			}
		}
		l.Parent = best
		if best != nil {
			best.Childs = append(best.Childs, l)
		}
	}
	for _, l := range c.Loops {
		d := 0
		for p := l.Parent; p != nil; p = p.Parent {
			d++
		}
		l.depth = d
	}
	for _, b := range fn.Blocks {
		var best *loopInfo
		for _, l := range c.Loops {
			if l.Blocks[b] && (best == nil || len(l.Blocks) < len(best.Blocks)) {
				best = l
			}
		}
		c.Inner[b] = best
	}
	return c
}

func (c *funcCFG) checkAcyclic() error {
	color := map[*ssa.BasicBlock]int{}
	var visit func(b *ssa.BasicBlock) error
	visit = func(b *ssa.BasicBlock) error {
		color[b] = 1
		for _, s := range b.Succs {
			if s.Dominates(b) {
				continue // back edge
			}
			if color[s] == 1 {
				return fmt.Errorf("irreducible control flow in %s (block %d -> %d)", c.Fn, b.Index, s.Index)
			}
			if color[s] == 0 {
				if err := visit(s); err != nil {
					return err
				}
			}
		}
		color[b] = 2
		return nil
	}
	return visit(c.Fn.Blocks[0])
}

package main

// Unrolling of tiny search loops: a loop with a constant iteration bound (at most 10), whose body only reads (loads; no
// stores, calls or nested loops) — `for _, m := range []int{8, 4} { if cond(m) { return m } }`, a scan over a table of
// bounds — is replaced by its iterations. Exit flags, the final iteration number and the values that leave the loop
// are replaced by their closed forms (selections over the iteration at which the loop is left). Loads with a
// constant index from a local literal table (an object allocated in the function whose elements are written once,
// with constants, before any read) are replaced by the element.

import "fmt"

const maxUnroll = 10

func unrollSmallLoops(S *Store, sum *Summary) { unrollLoops(S, sum, false) }

// unrollLoopsWithEffects also unrolls tiny constant loops whose body calls and stores (a worker that rolls its
// per-parameter blocks into `for _, k := range [...]int{3, 7} { ... }`).
func unrollLoopsWithEffects(S *Store, sum *Summary) { unrollLoops(S, sum, true) }

func unrollLoops(S *Store, sum *Summary, withEffects bool) {
	for round := 0; round < 12; round++ {
		if !unrollOne(S, sum, sum.Top, withEffects) {
			break
		}
	}
	resolveLiteralLoads(S, sum)
	// the closed forms are selections: resolve what each event's own path condition already decides
	restrictByGuard(S, sum.Top)
	restrictLoopBodies(S, sum.Top)
}

func unrollable(l *LoopS, withEffects bool) (int64, bool) {
	if l.Bound == nil {
		return 0, false
	}
	b, ok := l.Bound.IntVal()
	if !ok || b < 1 || b > maxUnroll {
		return 0, false
	}
	okBody := true
	for _, it := range l.Body.Items {
		e, isEv := it.(*Event)
		if !isEv {
			okBody = false
			break
		}
		if e.Dead {
			continue
		}
		switch e.Kind {
		case "load":
		case "call", "store":
			if !withEffects {
				okBody = false
			}
		default:
			okBody = false
		}
	}
	if !okBody {
		return 0, false
	}
	head := false
	for _, x := range l.Exits {
		if x.AtHead {
			head = true
		}
		if x.Guard == nil {
			return 0, false
		}
	}
	if !head || l.Cont == nil {
		return 0, false
	}
	for _, c := range l.Carried {
		if c.Init == nil || c.Next == nil {
			return 0, false
		}
	}
	return b, true
}

func unrollOne(S *Store, sum *Summary, r *Region, withEffects bool) bool {
	for pos, it := range r.Items {
		l, ok := it.(*LoopS)
		if !ok {
			continue
		}
		if unrollOne(S, sum, l.Body, withEffects) {
			return true
		}
		B, ok := unrollable(l, withEffects)
		if !ok {
			continue
		}
		items, sub := unrollLoop(S, l, B)
		out := append([]interface{}{}, r.Items[:pos]...)
		out = append(out, items...)
		out = append(out, r.Items[pos+1:]...)
		r.Items = out
		memo := map[*Term]*Term{}
		f := func(t *Term) *Term { return S.Subst(t, sub, memo) }
		sum.Top.MapTerms(f)
		for _, rt := range sum.Rets {
			for i := range rt.Rets {
				rt.Rets[i] = f(rt.Rets[i])
			}
			if rt.Guard != nil {
				rt.Guard = f(rt.Guard)
			}
		}
		return true
	}
	return false
}

func unrollLoop(S *Store, l *LoopS, B int64) ([]interface{}, map[*Symbol]*Term) {
	alive := l.Guard
	if alive == nil {
		alive = S.True
	}
	state := map[*Symbol]*Term{}
	for _, c := range l.Carried {
		state[c.Sym] = c.Init
	}
	exitTaken := make([]*Term, len(l.Exits))
	for j := range exitTaken {
		exitTaken[j] = S.False
	}
	type leave struct {
		g    *Term               // left in this iteration (any exit)
		vals map[*Symbol]*Term   // values of the loop's symbols in this iteration
	}
	var leaves []leave
	var items []interface{}
	for k := int64(0); k <= B; k++ {
		sub := map[*Symbol]*Term{l.Iter: S.Int(k)}
		for sy, v := range state {
			sub[sy] = v
		}
		memo := map[*Term]*Term{}
		sb := func(t *Term) *Term {
			if t == nil {
				return nil
			}
			return S.Subst(t, sub, memo)
		}
		// the body's loads of this iteration (their conditions and indices may use earlier loads of the iteration)
		for _, it := range l.Body.Items {
			e := it.(*Event)
			if e.Dead {
				continue
			}
			g := S.Canon(S.And(alive, sb(e.Guard)))
			if g == S.False {
				continue
			}
			ne := *e
			ne.Guard = g
			ne.Loop = l.Parent
			ne.Root = sb(e.Root)
			ne.Val = sb(e.Val)
			ne.Recv = sb(e.Recv)
			ne.FnTerm = sb(e.FnTerm)
			ne.Path = make([]*Term, len(e.Path))
			for i := range e.Path {
				ne.Path[i] = sb(e.Path[i])
			}
			ne.Args = make([]*Term, len(e.Args))
			for i := range e.Args {
				ne.Args[i] = sb(e.Args[i])
			}
			if e.Res != nil {
				nsym := S.NewSym(e.Res.Kind, fmt.Sprintf("%s_u%d", e.Kind, k), e.Res.Ty)
				nsym.Ev = &ne
				nsym.Pos = e.Res.Pos
				ne.Res = nsym
				sub[e.Res] = S.SymTerm(nsym)
				memo = map[*Term]*Term{} // the substitution grew
			}
			items = append(items, &ne)
		}
		left := S.False
		for j, x := range l.Exits {
			xg := S.Canon(S.And(alive, sb(x.Guard)))
			exitTaken[j] = S.Or(exitTaken[j], xg)
			left = S.Or(left, xg)
		}
		vals := map[*Symbol]*Term{}
		for sy := range l.final {
			vals[sy] = sb(S.SymTerm(sy))
		}
		leaves = append(leaves, leave{S.Canon(left), vals})
		// next iteration
		nalive := S.Canon(S.And(alive, sb(l.Cont)))
		nstate := map[*Symbol]*Term{}
		for _, c := range l.Carried {
			nstate[c.Sym] = sb(c.Next)
		}
		alive, state = nalive, nstate
		if alive == S.False {
			break
		}
	}
	// closed forms of what leaves the loop
	out := map[*Symbol]*Term{}
	for j, x := range l.Exits {
		if x.Sym != nil {
			out[x.Sym] = S.Canon(exitTaken[j])
		}
	}
	for sy, outT := range l.final {
		if outT == nil || outT.K != KSym {
			continue
		}
		var cases []muxCase
		for _, lv := range leaves {
			if lv.g == S.False {
				continue
			}
			cases = append(cases, muxCase{lv.g, lv.vals[sy]})
		}
		if len(cases) > 0 {
			out[outT.Sym] = S.Mux(cases, outT.Ty)
		}
	}
	return items, out
}

// resolveLiteralLoads replaces loads with a constant index from a local literal table by the element.
func resolveLiteralLoads(S *Store, sum *Summary) {
	type cell struct {
		val *Term
		seq int
		n   int
	}
	tables := map[*Symbol]map[int64]*cell{}
	bad := map[*Symbol]bool{}
	allocSeq := map[*Symbol]int{}
	allocLoop := map[*Symbol]*LoopS{}
	sum.Top.Events(func(e *Event, loops []*LoopS) {
		if e.Kind == "alloc" && e.Res != nil {
			allocSeq[e.Res] = e.Seq
			if len(loops) > 0 {
				allocLoop[e.Res] = loops[len(loops)-1]
			}
		}
	})
	innermost := func(loops []*LoopS) *LoopS {
		if len(loops) == 0 {
			return nil
		}
		return loops[len(loops)-1]
	}
	sum.Top.Events(func(e *Event, loops []*LoopS) {
		if e.Kind != "store" || e.Root == nil || e.Root.K != KSym {
			return
		}
		sy := e.Root.Sym
		if _, isLocal := allocSeq[sy]; !isLocal {
			return
		}
		idx, okI := int64(0), false
		if len(e.Path) == 1 {
			idx, okI = e.Path[0].IntVal()
		}
		// written in the very iteration (or at the very level) that allocates it
		if !okI || innermost(loops) != allocLoop[sy] || e.Val == nil || e.Val.K != KConst {
			bad[sy] = true
			return
		}
		if tables[sy] == nil {
			tables[sy] = map[int64]*cell{}
		}
		c := tables[sy][idx]
		if c == nil {
			c = &cell{}
			tables[sy][idx] = c
		}
		c.val, c.seq = e.Val, e.Seq
		c.n++
	})
	// the table must not be handed to anything that could write it
	sum.Top.Events(func(e *Event, _ []*LoopS) {
		if e.Kind == "load" || e.Kind == "store" || e.Kind == "alloc" {
			return
		}
		for _, a := range append(append([]*Term{e.Recv, e.FnTerm}, e.Args...), e.Rets...) {
			if a == nil {
				continue
			}
			Walk(a, map[*Term]bool{}, func(x *Term) {
				if x.K == KSym && tables[x.Sym] != nil {
					bad[x.Sym] = true
				}
			})
		}
	})
	sub := map[*Symbol]*Term{}
	sum.Top.Events(func(e *Event, loops []*LoopS) {
		if e.Kind != "load" || e.Root == nil || e.Root.K != KSym || e.Res == nil || len(e.Path) != 1 {
			return
		}
		t := tables[e.Root.Sym]
		if t == nil || bad[e.Root.Sym] {
			return
		}
		// read in the same iteration (at the same level or deeper) as the table was built
		if al := allocLoop[e.Root.Sym]; al != nil {
			inside := false
			for _, l := range loops {
				if l == al {
					inside = true
				}
			}
			if !inside {
				return
			}
		}
		idx, ok := e.Path[0].IntVal()
		if !ok {
			return
		}
		c := t[idx]
		if c == nil || c.n != 1 || c.seq > e.Seq {
			return
		}
		sub[e.Res] = c.val
		e.Dead = true
	})
	if len(sub) == 0 {
		return
	}
	memo := map[*Term]*Term{}
	f := func(t *Term) *Term { return S.Subst(t, sub, memo) }
	sum.Top.MapTerms(f)
	for _, rt := range sum.Rets {
		for i := range rt.Rets {
			rt.Rets[i] = f(rt.Rets[i])
		}
		if rt.Guard != nil {
			rt.Guard = f(rt.Guard)
		}
	}
}

package main

// Structured summary of a function instance: an if-converted loop-nest tree whose leaves are
// ordered, guarded events (stores, loads of mutable memory, impure calls, go/defer/send/recv,
// returns, panics). All value computations are terms (term.go).

import (
	"fmt"
	"go/token"
	"strings"

	"golang.org/x/tools/go/ssa"
)

type Event struct {
	Kind   string // store load call go defer rundefers send recv alloc panic return mapupdate select
	Guard  *Term
	Instr  ssa.Instruction
	Fn     *ssa.Function
	Pos    token.Pos
	Callee string  // canonical callee name for call/go/defer ("invoke:Read", "builtin:append", "dynamic")
	FnTerm *Term   // callee value term (function symbol / closure / dynamic value)
	Recv   *Term   // receiver for invoke
	Args   []*Term // call arguments (varargs absorbed) ; send: [chan, value]
	Root   *Term   // store/load root
	Path   []*Term // store/load path
	Val    *Term   // stored value
	Res    *Symbol // result symbol (call, load, recv, alloc)
	Rets   []*Term // return values
	Loop   *LoopS  // innermost enclosing loop
	Type   string  // alloc: type string
	Len    *Term   // alloc: length
	Dead   bool    // absorbed / purified
	Seq    int
	Closure *closureVal // go/defer/call of a closure
	StaticCallee *ssa.Function
	Virtual bool // produced by splitReturns (not an item of any region)
}

type Carried struct {
	Sym    *Symbol
	Fin    *Symbol // value at the start of the exiting iteration
	Init   *Term
	Next   *Term
	Phi    *ssa.Phi
	Cell   *Symbol
	Affine bool
	Step   *Term
	Ty     TyClass
	Name   string
}

type Exit struct {
	Guard  *Term // path condition inside the iteration
	From   *ssa.BasicBlock
	Target *ssa.BasicBlock
	Sym    *Symbol // boolean "left through this exit" (only when the loop has several exit targets)
	AtHead bool    // taken in the header before any event of the iteration
}

type LoopS struct {
	ID      int
	Fn      *ssa.Function
	Info    *loopInfo
	Guard   *Term // entry guard in the parent region
	Iter    *Symbol
	IterEnd *Symbol
	Carried []*Carried
	Body    *Region
	Exits   []*Exit
	Cont    *Term // disjunction of back-edge guards
	Trip    *Term // iteration count when it is a closed form, else nil
	Bound   *Term // iteration bound from the head exit (== Trip when that is the only exit)
	Parent  *LoopS
	Pos     token.Pos
	final   map[*Symbol]*Term
	HeadEvents int // number of events in the header block
	HeadExact  bool // the exit at the head is the only way out of the loop (its condition decides the trip count)
	exitCellSnap []map[*Symbol]*Term
}

type Region struct {
	Items []interface{} // *Event | *LoopS
}

type closureVal struct {
	Fn       *ssa.Function
	Free     []*Term
	FreeVals []*Term // values of captured cells at the time of the go/defer/call
}

type Summary struct {
	Fn      *ssa.Function
	Top     *Region
	Rets    []*Event // return events (also in the regions)
	Params  []*Term
	Undecided []string
	NLoops  int
	NEvents int
}

func (l *LoopS) inside(o *LoopS) bool {
	for x := l; x != nil; x = x.Parent {
		if x == o {
			return true
		}
	}
	return false
}

// ---- traversal helpers ----

func (r *Region) Events(f func(e *Event, loops []*LoopS)) { r.events(f, nil) }
func (r *Region) events(f func(e *Event, loops []*LoopS), st []*LoopS) {
	for _, it := range r.Items {
		switch x := it.(type) {
		case *Event:
			if !x.Dead {
				f(x, st)
			}
		case *LoopS:
			x.Body.events(f, append(st[:len(st):len(st)], x))
		}
	}
}

func (r *Region) AllLoops(f func(l *LoopS)) {
	for _, it := range r.Items {
		if l, ok := it.(*LoopS); ok {
			f(l)
			l.Body.AllLoops(f)
		}
	}
}

// MapTerms rewrites every term in the region tree.
func (r *Region) MapTerms(f func(*Term) *Term) {
	for _, it := range r.Items {
		switch x := it.(type) {
		case *Event:
			x.mapTerms(f)
		case *LoopS:
			x.mapTerms(f)
		}
	}
}

func (e *Event) mapTerms(f func(*Term) *Term) {
	m := func(t *Term) *Term {
		if t == nil {
			return nil
		}
		return f(t)
	}
	e.Guard = m(e.Guard)
	e.FnTerm = m(e.FnTerm)
	e.Recv = m(e.Recv)
	for i := range e.Args {
		e.Args[i] = m(e.Args[i])
	}
	e.Root = m(e.Root)
	for i := range e.Path {
		e.Path[i] = m(e.Path[i])
	}
	e.Val = m(e.Val)
	for i := range e.Rets {
		e.Rets[i] = m(e.Rets[i])
	}
	e.Len = m(e.Len)
	if e.Closure != nil {
		for i := range e.Closure.Free {
			e.Closure.Free[i] = m(e.Closure.Free[i])
		}
	}
}

func (l *LoopS) mapTerms(f func(*Term) *Term) {
	m := func(t *Term) *Term {
		if t == nil {
			return nil
		}
		return f(t)
	}
	l.Guard = m(l.Guard)
	l.Cont = m(l.Cont)
	l.Trip = m(l.Trip)
	l.Bound = m(l.Bound)
	for _, c := range l.Carried {
		c.Init = m(c.Init)
		c.Next = m(c.Next)
		c.Step = m(c.Step)
	}
	for _, x := range l.Exits {
		x.Guard = m(x.Guard)
	}
	l.Body.MapTerms(f)
}

// ---- printing ----

func (s *Summary) Dump(p *Prog) string {
	var sb strings.Builder
	fmt.Fprintf(&sb, "summary %s\n", s.Fn)
	s.Top.dump(&sb, p, 1)
	for _, u := range s.Undecided {
		fmt.Fprintf(&sb, "  UNDECIDED: %s\n", u)
	}
	return sb.String()
}

func (r *Region) dump(sb *strings.Builder, p *Prog, ind int) {
	pad := strings.Repeat("  ", ind)
	for _, it := range r.Items {
		switch x := it.(type) {
		case *Event:
			if x.Dead {
				continue
			}
			fmt.Fprintf(sb, "%s%s\n", pad, x.String(p))
		case *LoopS:
			fmt.Fprintf(sb, "%sloop L%d [%s] guard=%v trip=%v cont=%v\n", pad, x.ID, p.Pos(x.Pos), x.Guard, x.Trip, x.Cont)
			for _, c := range x.Carried {
				if c.Affine {
					fmt.Fprintf(sb, "%s  iv %s(%s) = %v + %v*i\n", pad, c.Sym.Name, c.Name, c.Init, c.Step)
				} else {
					fmt.Fprintf(sb, "%s  carried %s(%s) init=%v next=%v\n", pad, c.Sym.Name, c.Name, c.Init, c.Next)
				}
			}
			for i, e := range x.Exits {
				fmt.Fprintf(sb, "%s  exit%d guard=%v head=%v -> b%d\n", pad, i, e.Guard, e.AtHead, e.Target.Index)
			}
			x.Body.dump(sb, p, ind+2)
		}
	}
}

func (e *Event) String(p *Prog) string {
	var sb strings.Builder
	fmt.Fprintf(&sb, "[%s] %s", p.Pos(e.Pos), e.Kind)
	if e.Guard != nil && e.Guard.K != KConst {
		fmt.Fprintf(&sb, " if %v", e.Guard)
	}
	switch e.Kind {
	case "store":
		fmt.Fprintf(&sb, " %v%v := %v", e.Root, e.Path, e.Val)
	case "load":
		fmt.Fprintf(&sb, " %s = %v%v", e.Res.Name, e.Root, e.Path)
	case "call", "go", "defer":
		fmt.Fprintf(&sb, " %s(", e.Callee)
		if e.Recv != nil {
			fmt.Fprintf(&sb, "recv=%v; ", e.Recv)
		}
		for i, a := range e.Args {
			if i > 0 {
				sb.WriteString(", ")
			}
			fmt.Fprintf(&sb, "%v", a)
		}
		sb.WriteString(")")
		if e.Res != nil {
			fmt.Fprintf(&sb, " -> %s", e.Res.Name)
		}
	case "alloc":
		fmt.Fprintf(&sb, " %s = %s len=%v", e.Res.Name, e.Type, e.Len)
	case "return":
		fmt.Fprintf(&sb, " %v", e.Rets)
	case "panic":
		fmt.Fprintf(&sb, " %v", e.Args)
	case "send":
		fmt.Fprintf(&sb, " %v <- %v", e.Args[0], e.Args[1])
	case "recv":
		fmt.Fprintf(&sb, " %s = <-%v", e.Res.Name, e.Args[0])
	}
	return sb.String()
}

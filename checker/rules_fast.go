package main

// Parallel (Fast) workflows: descriptor through go-binding, race/ownership, barrier, error discipline.

import (
	"os"
	"fmt"
	"strings"
)

func findAllocByType(sum *Summary, pred func(t string) bool, topOnly bool) []*Event {
	var out []*Event
	sum.Top.Events(func(e *Event, loops []*LoopS) {
		if e.Kind == "alloc" && pred(e.Type) && (!topOnly || len(loops) == 0) {
			out = append(out, e)
		}
	})
	return out
}

func objOfTerm(t *Term) *Term {
	if t == nil {
		return nil
	}
	if r, _, _, ok := isSliceOf(t); ok {
		return r
	}
	return t
}

// analyzeFast summarises a Fast workflow and its worker (bound through the `go` statement).
func analyzeFast(c *Check, p *Prog, name string) *wfDesc {
	fn := p.Func(pkgDetect, name)
	if fn == nil {
		c.Fail("R-ANCHOR", name, "-", "function detect.%s not found", name)
		return nil
	}
	x := NewExt(p, NewStore(), wfConfig())
	sum := x.Summarize(fn, nil, nil)
	S := x.S
	d := &wfDesc{Fn: fn, Sum: sum, X: x}
	where := p.Pos(fn.Pos())
	if len(sum.Undecided) > 0 {
		c.Undecided("R-EXTRACT", name, where, "extractor does not cover: %s", strings.Join(sum.Undecided, "; "))
		return nil
	}
	d.Source = sum.Params[0]
	// a parameter object bundling what the workers share is looked through (sroa.go)
	fm := paramObjectFields(S, sum)
	applySROA(S, x, sum, fm)
	if os.Getenv("VERIF_DUMP_FAST") == name {
		fmt.Fprint(os.Stderr, sum.Dump(p))
	}
	gos := events(sum.Top, func(e *Event) bool { return e.Kind == "go" })
	if len(gos) != 1 || gos[0].StaticCallee == nil || gos[0].Closure != nil {
		c.Fail("R-ANCHOR", name+"/go", where, "expected exactly one `go <static function>(...)` site, found %d", len(gos))
		return nil
	}
	d.GoEv = gos[0]
	// objects by type
	one := func(pred func(string) bool, what string) *Term {
		as := findAllocByType(sum, pred, false)
		if len(as) == 1 {
			return S.SymTerm(as[0].Res)
		}
		if len(as) > 1 {
			c.Fail("R-ANCHOR", name+"/"+what, where, "%d objects of kind %s; expected one", len(as), what)
		}
		return nil
	}
	d.Jobs = one(func(t string) bool { return t == "chan int" }, "jobs-channel")
	d.Wait = one(func(t string) bool { return t == "sync.WaitGroup" }, "WaitGroup")
	d.Lock = one(func(t string) bool { return t == "sync.Mutex" }, "Mutex")
	d.Errs = one(func(t string) bool { return strings.HasSuffix(t, "]error") }, "error-slots")
	if msg := fillObjects(d); msg != "" {
		c.Fail("R-ANCHOR", name+"/tables", where, "%s", msg)
		return nil
	}
	// a WaitGroup / Mutex embedded by value in a per-call parameter object: its address is its identity
	embedded := func(callee string) *Term {
		var found *Term
		n := 0
		sum.Top.Events(func(e *Event, _ []*LoopS) {
			if e.Kind == "call" && e.Callee == callee && len(e.Args) >= 1 && e.Args[0].Op == "addr" && len(e.Args[0].Args) == 2 {
				if r := e.Args[0].Args[0]; r.K == KSym && fm[r.Sym] != nil {
					if found != e.Args[0] {
						n++
					}
					found = e.Args[0]
				}
			}
		})
		if n == 1 {
			return found
		}
		return nil
	}
	if d.Wait == nil {
		d.Wait = embedded("(*sync.WaitGroup).Add")
	}
	if d.Jobs == nil || d.Wait == nil {
		c.Fail("R-ANCHOR", name+"/sync", where, "jobs channel or WaitGroup not found as per-call allocations")
		return nil
	}
	// worker
	ux := len(x.Und)
	d.Worker = x.Summarize(d.GoEv.StaticCallee, d.GoEv.Args, nil)
	applySROA(S, x, d.Worker, fm)
	if d.Lock == nil {
		// a mutex embedded by value in the per-call parameter object: one address, shared by all workers
		var found *Term
		n := 0
		d.Worker.Top.Events(func(e *Event, _ []*LoopS) {
			if e.Kind == "call" && e.Callee == "(*sync.Mutex).Lock" && len(e.Args) >= 1 && e.Args[0].Op == "addr" && len(e.Args[0].Args) == 2 {
				if r := e.Args[0].Args[0]; r.K == KSym && fm[r.Sym] != nil {
					if found != e.Args[0] {
						n++
					}
					found = e.Args[0]
				}
			}
		})
		if n == 1 {
			d.Lock = found
		}
	}
	if len(x.Und) > ux {
		c.Undecided("R-EXTRACT", name+"/worker", p.Pos(d.GoEv.StaticCallee.Pos()), "extractor does not cover: %s", strings.Join(x.Und[ux:], "; "))
		return nil
	}
	// job loop: the loop whose header receives from the jobs channel
	d.Worker.Top.AllLoops(func(l *LoopS) {
		for _, it := range l.Body.Items {
			if e, ok := it.(*Event); ok && e.Kind == "recv" && e.Args[0] == d.Jobs && e.Loop == l {
				d.JobLoop = l
				d.RecvTok = S.mkOp("extract0", TInt, S.SymTerm(e.Res))
			}
		}
	})
	if d.JobLoop == nil || d.JobLoop.Parent != nil {
		c.Fail("R-ANCHOR", name+"/job-loop", p.Pos(d.GoEv.StaticCallee.Pos()), "the worker has no top-level loop receiving job tokens from the jobs channel")
		return nil
	}
	// dispatch: S from the send loop
	sends := events(sum.Top, func(e *Event) bool { return e.Kind == "send" })
	if len(sends) == 1 && sends[0].Loop != nil && sends[0].Loop.Parent == nil {
		if v, ok := intOf(sends[0].Loop.Trip); ok {
			d.S = v
		}
	}
	// sample bytes: buffer of the read in the worker
	uses := sourceUses(d.Worker, d.Source)
	var reads []*Event
	for _, e := range uses {
		if e.Kind == "call" && len(e.Args) >= 1 && (e.Args[0] == d.Source || e.Recv == d.Source) {
			reads = append(reads, e)
		}
	}
	if len(reads) == 1 {
		d.Read = reads[0]
		var bufArg *Term
		if d.Read.Recv == d.Source && len(d.Read.Args) >= 1 {
			bufArg = d.Read.Args[0]
		} else if len(d.Read.Args) >= 2 {
			bufArg = d.Read.Args[1]
		}
		if root, off, ln, ok := isSliceOf(bufArg); ok && isZero(off) {
			if al := objAlloc(d.Worker, root); al != nil {
				if v, ok2 := intOf(ln); ok2 && al.Len == ln {
					d.Bytes = v
					d.Buf = bufArg
				}
			}
		}
	}
	rcs := events(d.JobLoop.Body, func(e *Event) bool {
		return e.Kind == "call" && (e.Callee == pkgDetect+".Round15" || e.Callee == pkgDetect+".Round12")
	})
	if len(rcs) == 1 {
		d.RoundCall = rcs[0]
		d.Round = roundName(rcs[0].Callee)
	}
	ws := events(sum.Top, func(e *Event) bool { return e.Kind == "call" && e.Callee == "(*sync.WaitGroup).Wait" && len(e.Args) == 1 && e.Args[0] == d.Wait })
	if len(ws) == 1 {
		d.WaitEv = ws[0]
	}
	d.ok = true
	return d
}

// errScanReturn recognises, in a Fast function, the post-barrier scan `for _, e := range errs { if e != nil { return false, e } }`.
func errScanLoop(d *wfDesc) (*LoopS, *Exit) {
	if d.Errs == nil {
		return nil, nil
	}
	S := d.X.S
	for _, it := range d.Sum.Top.Items {
		l, ok := it.(*LoopS)
		if !ok {
			continue
		}
		evs := events(l.Body, func(e *Event) bool { return true })
		he := headExit(l)
		if he == nil || len(evs) != 1 || evs[0].Kind != "load" || evs[0].Root != d.Errs || len(l.Exits) != 2 {
			continue
		}
		var fx *Exit
		for _, x := range l.Exits {
			if x != he {
				fx = x
			}
		}
		b, _ := intOf(l.Bound)
		want := S.Canon(S.And(S.Not(he.Guard), S.Not(S.Cmp("==", S.SymTerm(evs[0].Res), S.Nil))))
		if len(evs[0].Path) == 1 && evs[0].Path[0] == iterTerm(S, l) && b == d.S && S.Equivalent(fx.Guard, want) {
			return l, fx
		}
	}
	return nil, nil
}

func fastErrorReturn(d *wfDesc) func(r *Event) bool {
	l, fx := errScanLoop(d)
	return func(r *Event) bool {
		if l == nil || fx.Sym == nil || len(r.Rets) != 2 {
			return false
		}
		bv, isB := r.Rets[0].BoolVal()
		if !isB || bv {
			return false
		}
		e := r.Rets[1]
		// the returned error is the value loaded from the error slot at the failing index
		if !(e.K == KSym && e.Sym.Kind == SOut) {
			return false
		}
		for _, ex := range posExits(d.X.S, d.Sum, r.Guard) {
			if ex == fx {
				return true
			}
		}
		return false
	}
}

func ruleC08(c *Check, p *Prog) {
	c.Explanation = "Decides for FactoryDetectFast/PowerOnDetectFast/PeriodDetectFast (worker analysed with the arguments bound at the `go` statement): " +
		"R-SIB the parallel descriptor (samples, bytes, round function, items, table shape) and post-barrier decision equal the sequential sibling's; " +
		"R-RACE every write reachable from `go worker` is to goroutine-fresh memory, an atomic op, a job-token-owned slot, or under the shared mutex; " +
		"R-TOKEN-UNIQUE each token 0..s-1 is sent exactly once; R-BARRIER Add(s) precedes dispatch, every post-dispatch read of shared tables follows Wait, Done exactly once per job; " +
		"R-ORDER-INDEP the decision consumes only per-item sums and the permutation-invariant ThresholdQ. Assumes the Go memory model for sync, sync/atomic and channels; the fifteen tests are pure (C18)."
	c.Floor("R-SIB", 3)
	c.Floor("R-RACE", 3)
	c.Floor("R-TOKEN-UNIQUE", 3)
	c.Floor("R-BARRIER", 6)
	for i, ref := range fastRefs {
		d := analyzeFast(c, p, ref.Name)
		if d == nil || !d.ok {
			continue
		}
		S := d.X.S
		where := p.Pos(d.Fn.Pos())
		// R-SIB: descriptor equality with reference and sibling
		qc := NewCheck("scratch", "quick", 0)
		sd := analyzeSeq(qc, p, seqRefs[i].Name, map[string]bool{})
		sib := ""
		if sd != nil && sd.ok && fillObjects(sd) == "" {
			sib = descString(sd.S, sd.Bytes, sd.Round, sd.Items, sd.DistOuter, sd.DistInner)
		}
		if sd != nil && sd.ok && sib != "" {
			// "the same verdict as its sequential counterpart": the counterpart must follow the same decision rule
			rls, _ := roundLenOf(p, sd.Round)
			checkAccumulate(c, p, "sibling/"+seqRefs[i].Name, sd, sd.X.S, sd.Sample.Body, sd.RoundCall, iterTerm(sd.X.S, sd.Sample), sd.Counters, sd.Dist, false, rls)
			checkDecide(c, p, "sibling/"+seqRefs[i].Name, sd, seqRefs[i].S, seqRefs[i].Items, nil, seqErrorReturn(sd))
		}
		got := descString(d.S, d.Bytes, d.Round, d.Items, d.DistOuter, d.DistInner)
		want := descString(ref.S, ref.Bytes, ref.Round, ref.Items, ref.Items, ref.S)
		// the byte count handed to the worker must be the one its buffer uses
		c.Expect(got == want && got == sib, "R-SIB", ref.Name, where,
			"parallel descriptor "+got+" equals the sequential sibling "+seqRefs[i].Name+" and the GM/T parameters",
			"parallel descriptor "+got+" differs from sequential "+seqRefs[i].Name+" "+sib+" / required "+want)
		rl, _ := roundLenOf(p, d.Round)
		checkAccumulate(c, p, ref.Name+"/worker", d, S, d.JobLoop.Body, d.RoundCall, d.RecvTok, d.Counters, d.Dist, true, rl)
		checkDecide(c, p, ref.Name, d, ref.S, ref.Items, nil, fastErrorReturn(d))
		checkRace(c, p, ref.Name, d)
		checkTokenBarrier(c, p, ref.Name, d, ref.S)
		checkDoneOnce(c, p, "R-BARRIER", ref.Name+"/done-once", d)
		checkPublishBeforeDone(c, p, "R-BARRIER", ref.Name+"/publish-before-done", d)
		checkWorkers(c, p, "R-WORKERS", ref.Name, d)
		// the sequential verdict is only reproduced if every sample is one consecutive chunk of the stream (shared with C10)
		if d.Read != nil {
			held := lockRegions(d, d.Worker)
			c.Expect(held(d.Read), "R-SERIAL", ref.Name, wherePos(p, d.Read),
				"the worker's read of the shared source runs under one mutex shared by all workers: each job's sample is one whole consecutive chunk",
				"the worker's read of the shared source is not inside a critical section of a mutex shared by all workers: partial reads interleave and samples differ from the sequential ones")
		}
	}
	checkTQCommute(c, p, "R-ORDER-INDEP")
}

func checkRace(c *Check, p *Prog, name string, d *wfDesc) {
	S := d.X.S
	w := d.Worker
	fresh := map[*Term]bool{}
	w.Top.Events(func(e *Event, _ []*LoopS) {
		if e.Kind == "alloc" {
			fresh[S.SymTerm(e.Res)] = true
		}
	})
	var bad []string
	n := 0
	held := lockRegions(d, w)
	w.Top.Events(func(e *Event, loops []*LoopS) {
		switch e.Kind {
		case "store":
			n++
			root := e.Root
			if fresh[root] {
				return
			}
			if root == d.Dist && len(e.Path) == 2 && e.Path[1] == d.RecvTok {
				return // token-owned column
			}
			if d.Errs != nil && root == d.Errs && len(e.Path) == 1 && e.Path[0] == d.RecvTok {
				return
			}
			if held(e) {
				return
			}
			bad = append(bad, "unsynchronised write to shared memory: "+e.String(p))
		case "call":
			n++
			switch {
			case strings.HasPrefix(e.Callee, "sync/atomic."):
				return
			case strings.HasPrefix(e.Callee, "(*sync.WaitGroup).") || strings.HasPrefix(e.Callee, "(*sync.Mutex)."):
				return
			case strings.HasPrefix(e.Callee, "fmt.") || strings.HasPrefix(e.Callee, "log."):
				return
			case e == d.Read:
				return // C10 R-SERIAL decides serialisation of reads; the source is documented as safe for concurrent Read
			case e == d.RoundCall:
				// the round function must only see goroutine-fresh memory
				for _, a := range e.Args {
					if r := objOfTerm(a); r != nil && !fresh[r] {
						bad = append(bad, "round function applied to shared memory: "+e.String(p))
					}
				}
				return
			}
			for _, a := range e.Args {
				r := objOfTerm(a)
				if r != nil && r.K == KSym && r.Sym.Kind == SObj && !fresh[r] {
					bad = append(bad, "shared object passed to "+e.Callee+": "+e.String(p))
				}
			}
		case "go", "send", "mapupdate":
			bad = append(bad, "unexpected "+e.Kind+" in worker: "+e.String(p))
		}
	})
	// fresh memory must not escape
	w.Top.Events(func(e *Event, _ []*LoopS) {
		if e.Kind == "store" && !fresh[e.Root] {
			for f := range fresh {
				if mentions(e.Val, f) {
					bad = append(bad, "goroutine-fresh memory stored into shared memory: "+e.String(p))
				}
			}
		}
	})
	// the buffer must be goroutine-fresh
	if d.Buf != nil && !fresh[objOfTerm(d.Buf)] {
		bad = append(bad, "the sample buffer is not allocated inside the goroutine")
	}
	c.Expect(len(bad) == 0, "R-RACE", name, p.Pos(d.GoEv.StaticCallee.Pos()),
		fmt.Sprintf("all %d writes/calls in the worker are goroutine-fresh, atomic, job-token-owned, or under the shared mutex", n),
		strings.Join(bad, " | "))
}

// lockRegions returns a predicate telling whether an event of the worker runs inside Lock..Unlock of the shared mutex.
func lockRegions(d *wfDesc, w *Summary) func(e *Event) bool {
	S := d.X.S
	if d.Lock == nil {
		return func(*Event) bool { return false }
	}
	// the mutex must be allocated once per workflow call, outside the spawn loop
	if al := objAlloc(d.Sum, d.Lock); al == nil || al.Loop != nil {
		return func(*Event) bool { return false }
	}
	var locks, unlocks []*Event
	w.Top.Events(func(e *Event, _ []*LoopS) {
		if e.Kind == "call" && len(e.Args) == 1 && e.Args[0] == d.Lock {
			if e.Callee == "(*sync.Mutex).Lock" {
				locks = append(locks, e)
			}
			if e.Callee == "(*sync.Mutex).Unlock" {
				unlocks = append(unlocks, e)
			}
		}
	})
	return func(e *Event) bool {
		for _, l := range locks {
			if l.Loop != e.Loop || l.Seq > e.Seq || !S.Implies(e.Guard, l.Guard) {
				continue
			}
			for _, u := range unlocks {
				if u.Loop == e.Loop && u.Seq > e.Seq && S.Equivalent(u.Guard, l.Guard) {
					// no second lock/unlock in between
					okk := true
					for _, u2 := range unlocks {
						if u2.Seq > l.Seq && u2.Seq < e.Seq && u2.Loop == e.Loop {
							okk = false
						}
					}
					if okk {
						return true
					}
				}
			}
		}
		return false
	}
}

func checkTokenBarrier(c *Check, p *Prog, name string, d *wfDesc, s int64) {
	S := d.X.S
	sum := d.Sum
	where := p.Pos(d.Fn.Pos())
	sends := events(sum.Top, func(e *Event) bool { return e.Kind == "send" })
	var msgs []string
	var send *Event
	if len(sends) != 1 {
		msgs = append(msgs, fmt.Sprintf("%d send sites", len(sends)))
	} else {
		send = sends[0]
		l := send.Loop
		tr, _ := intOf(nilTrip(l))
		if l == nil || l.Parent != nil || tr != s || send.Args[0] != d.Jobs || send.Args[1] != iterTerm(S, l) || !S.Equivalent(send.Guard, S.Not(headExit(l).Guard)) {
			msgs = append(msgs, "the send is not `jobs <- i` once per iteration of `for i := 0; i < s; i++`: "+send.String(p))
		}
	}
	// other uses of the channel: go args, the deferred close, recv in worker
	nClose := 0
	others := events(sum.Top, func(e *Event) bool {
		if e == send || e == d.GoEv || e.Kind == "alloc" {
			return false
		}
		if e.Kind == "defer" && e.Callee == "builtin:close" {
			nClose++
			return nClose > 1
		}
		// the same close written out after the dispatch loop (all tokens are sent by then)
		if e.Kind == "call" && e.Callee == "builtin:close" && e.Loop == nil && send != nil && e.Seq > send.Seq && len(e.Args) == 1 && e.Args[0] == d.Jobs {
			nClose++
			return nClose > 1
		}
		return eventMentions(e, d.Jobs)
	})
	for _, e := range others {
		msgs = append(msgs, "other use of the jobs channel: "+e.String(p))
	}
	wsends := events(d.Worker.Top, func(e *Event) bool { return e.Kind == "send" || (e.Kind == "call" && e.Callee == "builtin:close") })
	for _, e := range wsends {
		msgs = append(msgs, "worker sends/closes: "+e.String(p))
	}
	c.Expect(len(msgs) == 0, "R-TOKEN-UNIQUE", name, where,
		fmt.Sprintf("tokens 0..%d are each sent exactly once on the per-call jobs channel; nothing else sends on it", s-1), strings.Join(msgs, " | "))

	// barrier
	adds := events(sum.Top, func(e *Event) bool { return e.Kind == "call" && e.Callee == "(*sync.WaitGroup).Add" })
	addOK := len(adds) == 1 && len(adds[0].Args) == 2 && adds[0].Args[0] == d.Wait && adds[0].Guard == S.True && adds[0].Loop == nil
	if addOK {
		v, ok := intOf(adds[0].Args[1])
		addOK = ok && v == s && send != nil && adds[0].Seq < send.Seq
	} else if len(adds) == 1 && send != nil && adds[0].Loop == send.Loop && adds[0].Loop != nil && len(adds[0].Args) == 2 && adds[0].Args[0] == d.Wait {
		// equivalent form: wg.Add(1) in every dispatch iteration before the send
		v, ok := intOf(adds[0].Args[1])
		addOK = ok && v == 1 && adds[0].Seq < send.Seq && S.Equivalent(adds[0].Guard, send.Guard)
	}
	c.Expect(addOK, "R-BARRIER", name+"/add", where, fmt.Sprintf("wg.Add(%d) executes once before the first token is sent", s), "wg.Add(k) with k = number of jobs does not precede dispatch")
	var late []string
	if d.WaitEv == nil || d.WaitEv.Guard != S.True || d.WaitEv.Loop != nil || send == nil || d.WaitEv.Seq < send.Seq {
		late = append(late, "wg.Wait() is not executed unconditionally after dispatch")
	} else {
		shared := []*Term{d.Counters, d.Dist}
		if d.Errs != nil {
			shared = append(shared, d.Errs)
		}
		sum.Top.Events(func(e *Event, _ []*LoopS) {
			if e.Seq > d.WaitEv.Seq || e == d.GoEv || e.Kind == "alloc" {
				return
			}
			if e.Seq < d.GoEv.Seq {
				return // before any goroutine exists
			}
			for _, sh := range shared {
				if eventMentions(e, sh) {
					late = append(late, "access to shared table before wg.Wait(): "+e.String(p))
				}
			}
		})
	}
	c.Expect(len(late) == 0, "R-BARRIER", name+"/wait", where, "every access of the spawner to counters / Q-table / error slots after the workers start follows wg.Wait()", strings.Join(late, " | "))
}

func nilTrip(l *LoopS) *Term {
	if l == nil {
		return nil
	}
	return l.Trip
}

// checkDoneOnce: on every path through one iteration of the job loop Done is called exactly once.
func checkDoneOnce(c *Check, p *Prog, rule, key string, d *wfDesc) {
	checkDoneOnceUnder(c, p, rule, key, d, nil)
}

// checkDoneOnceUnder restricts the obligation to the paths on which `assume` holds (nil = all paths).
func checkDoneOnceUnder(c *Check, p *Prog, rule, key string, d *wfDesc, assume func(S *Store) *Term) {
	S := d.X.S
	l := d.JobLoop
	where := loopWhere(p, l)
	var recv *Event
	for _, it := range l.Body.Items {
		if e, ok := it.(*Event); ok && e.Kind == "recv" {
			recv = e
		}
	}
	if recv == nil {
		c.Fail(rule, key, where, "no receive in job loop")
		return
	}
	okT := S.mkOp("extract1", TBool, S.SymTerm(recv.Res))
	bodyG := S.Canon(S.And(recv.Guard, okT))
	if assume != nil {
		bodyG = S.Canon(S.And(bodyG, assume(S)))
	}
	var dones []*Event
	nested := false
	l.Body.Events(func(e *Event, loops []*LoopS) {
		if e.Kind == "call" && e.Callee == "(*sync.WaitGroup).Done" && len(e.Args) == 1 && e.Args[0] == d.Wait {
			if len(loops) > 0 {
				nested = true
			}
			dones = append(dones, e)
		}
	})
	// panics / returns inside the iteration are paths without Done unless they are the loop exit on !ok
	var escapes []string
	l.Body.Events(func(e *Event, loops []*LoopS) {
		if (e.Kind == "panic" || e.Kind == "return") && !S.Exclusive(outerGuard(e, loops), bodyG) {
			escapes = append(escapes, e.String(p))
		}
	})
	// leaving the job loop while the channel is still open: the worker is gone, and once all workers are gone the
	// dispatcher's next send blocks forever (a loop exit is not a return event of the body)
	for _, x := range l.Exits {
		if x.Guard != nil && !S.Implies(x.Guard, S.Not(okT)) {
			escapes = append(escapes, fmt.Sprintf("the job loop is left on %v although a job was received (the worker stops serving the open channel)", x.Guard))
		}
	}
	any := S.False
	excl := true
	for i, a := range dones {
		any = S.Or(any, a.Guard)
		for _, b := range dones[i+1:] {
			if !S.Exclusive(a.Guard, b.Guard) {
				excl = false
			}
		}
	}
	cover := S.Equivalent(S.Canon(any), bodyG)
	if assume != nil {
		cover = S.Equivalent(S.Canon(S.And(any, assume(S))), bodyG)
	}
	detail := ""
	if !cover {
		// witness: the part of the body guard not covered
		miss := S.Canon(S.And(bodyG, S.Not(any)))
		detail = fmt.Sprintf("a received job can complete an iteration without wg.Done(): path condition %v (blocks wg.Wait() forever)", miss)
	}
	if !excl {
		detail += " Done may be called twice on one path."
	}
	if nested {
		detail += " Done is called inside a nested loop."
	}
	if len(escapes) > 0 {
		detail += " Iteration can leave through: " + strings.Join(escapes, " | ")
	}
	c.Expect(cover && excl && !nested && len(escapes) == 0, rule, key, where,
		fmt.Sprintf("wg.Done() is called exactly once on every path through one job iteration (%d call sites with exclusive, exhaustive guards)", len(dones)), detail)
}

// checkWorkers: at least one worker is started on every machine (otherwise the first send blocks forever).
func checkWorkers(c *Check, p *Prog, rule, name string, d *wfDesc) {
	checkWorkersAt(c, p, rule, name, d.X.S, d.GoEv)
}

func checkWorkersAt(c *Check, p *Prog, rule, name string, S *Store, goEv *Event) {
	d := struct{ GoEv *Event }{goEv}
	l := d.GoEv.Loop
	where := wherePos(p, d.GoEv)
	if l == nil {
		// a single unconditional `go worker` is also fine
		c.Expect(d.GoEv.Guard == S.True, rule, name, where, "one worker is started unconditionally", "the worker start is conditional")
		return
	}
	okk := false
	detail := "the worker-spawning loop is not `for i := 0; i < B; i++ { go worker(...) }`"
	if len(l.Exits) == 1 && l.Parent == nil && S.Equivalent(d.GoEv.Guard, S.Not(l.Exits[0].Guard)) {
		// exit guard: B - i <= 0
		g := l.Exits[0].Guard
		if g.Op == "le0" {
			as, cs, off := linParts(g.Args[0])
			var iterCoef int64
			rest := S.linMake(nil, nil, off)
			for i, a := range as {
				if a == iterTerm(S, l) {
					iterCoef = cs[i].Int64()
				} else {
					rest = S.Add(rest, S.MulC(a, cs[i]))
				}
			}
			if iterCoef == -1 {
				detail = fmt.Sprintf("the number of workers %v is not guaranteed to be at least 1", rest)
				if v, ok := rest.IntVal(); ok && v >= 1 {
					okk = true
				}
				ras, rcs, roff := linParts(rest)
				if len(ras) == 1 && rcs[0].Int64() >= 1 && roff.Sign() >= 0 && ras[0].K == KSym && ras[0].Sym.Ev != nil &&
					(ras[0].Sym.Ev.Callee == "runtime.NumCPU" || ras[0].Sym.Ev.Callee == "runtime.GOMAXPROCS") {
					okk = true // both are documented to be >= 1
				}
				if rest.Op == "call:builtin.max" {
					for _, a := range rest.Args {
						if v, ok := a.IntVal(); ok && v >= 1 {
							okk = true
						}
					}
				}
			}
		}
	}
	c.Expect(okk, rule, name, where, "at least one worker goroutine is started (runtime.NumCPU() / GOMAXPROCS(0) >= 1, or a constant >= 1)", detail+": with zero workers the first `jobs <- i` blocks forever")
}

// checkPublishBeforeDone: within a job iteration every write to memory shared with the spawner (result slots,
// counters, error slots) is ordered before the wg.Done() that can follow it: Wait() is the only happens-before edge
// to the spawner's reads.
func checkPublishBeforeDone(c *Check, p *Prog, rule, key string, d *wfDesc) {
	S := d.X.S
	l := d.JobLoop
	fresh := map[*Term]bool{}
	d.Worker.Top.Events(func(e *Event, _ []*LoopS) {
		if e.Kind == "alloc" {
			fresh[S.SymTerm(e.Res)] = true
		}
	})
	var dones []*Event
	l.Body.Events(func(e *Event, _ []*LoopS) {
		if e.Kind == "call" && e.Callee == "(*sync.WaitGroup).Done" && len(e.Args) == 1 && e.Args[0] == d.Wait {
			dones = append(dones, e)
		}
	})
	var late []string
	n := 0
	l.Body.Events(func(e *Event, loops []*LoopS) {
		shared := false
		switch {
		case e.Kind == "store" && !fresh[e.Root]:
			shared = true
		case e.Kind == "call" && strings.HasPrefix(e.Callee, "sync/atomic."):
			shared = true
		}
		if !shared {
			return
		}
		n++
		g := outerGuard(e, loops)
		for _, dn := range dones {
			if dn.Seq < e.Seq && !S.Exclusive(dn.Guard, g) {
				late = append(late, fmt.Sprintf("%s happens after wg.Done() at %s", e.String(p), p.Pos(dn.Pos)))
			}
		}
	})
	c.Expect(len(late) == 0 && len(dones) > 0, rule, key, loopWhere(p, l),
		fmt.Sprintf("all %d writes to shared result/error memory of an iteration precede the wg.Done() of that iteration (Wait orders them before the spawner's reads)", n),
		"published after completion was signalled (the spawner may read before the write lands): "+trunc(strings.Join(late, " | "), 500))
}

package main

import (
	"go/ast"
	"go/constant"
	"os"
	"fmt"
	"math"
	"sort"
	"strings"

	"golang.org/x/tools/go/ssa"
)

// ---- generic: equivalence of a repository function with a reference function ----

type eqSpec struct {
	Pkg, Name string // repository function
	RefName   string // function in verif/checker/ref
	Dom       map[string]Domain
	KeepOpaque map[string]bool // extra repo callees to keep opaque (canonical name -> pure)
	Ignore    map[string]bool // callee names whose call events are ignored on both sides (logging)
	Exact     bool
	Inline    map[string]bool // repo callees to inline although they are in repoOpaque
	// Mutual: the opaque callees that call the compared function back (igam <-> igamc) are inlined once on both
	// sides, the inner call back staying opaque: a caller that reaches directly for the part of its partner which the
	// partner's own dispatch would have selected then meets the same body on the reference side
	Mutual bool
}

const refPkg = "verif/checker/ref"

// repoOpaque: callees that stay calls (compared by name through refAlias) in equivalence checks.
var repoOpaque = map[string]bool{
	pkgRoot + ".igamc": true, pkgRoot + ".Igamc": true, pkgRoot + ".igam": true,
	pkgRoot + ".linearComplexity": true, pkgRoot + ".rank": true, pkgRoot + ".B2bitArr": true,
	pkgRoot + ".rowEchelon": false,
	pkgFFT + ".New": true, pkgFFT + ".roots": true, pkgFFT + ".permutationIndex": true, pkgFFT + ".lastPow2": true,
	pkgFFT + ".inputPermutation": false,
	"(" + pkgFFT + ".FFT).Transform": false,
}
var refOpaque = map[string]bool{
	refPkg + ".igamc": true, refPkg + ".igam": true, refPkg + ".linearComplexity": true, refPkg + ".rank": true, refPkg + ".bitsOf": true,
	refPkg + ".rowEchelon": false,
	refPkg + ".fftNew": true, refPkg + ".roots": true, refPkg + ".permutationIndex": true, refPkg + ".lastPow2": true,
	refPkg + ".inputPermutation": false,
	"(" + refPkg + ".FFT).Transform": false,
}
var refAlias = map[string]string{
	pkgRoot + ".igamc": refPkg + ".igamc", pkgRoot + ".Igamc": refPkg + ".igamc", pkgRoot + ".igam": refPkg + ".igam",
	pkgRoot + ".linearComplexity": refPkg + ".linearComplexity", pkgRoot + ".rank": refPkg + ".rank",
	pkgRoot + ".B2bitArr": refPkg + ".bitsOf", pkgRoot + ".rowEchelon": refPkg + ".rowEchelon",
	pkgFFT + ".New": refPkg + ".fftNew", pkgFFT + ".roots": refPkg + ".roots", pkgFFT + ".permutationIndex": refPkg + ".permutationIndex",
	pkgFFT + ".lastPow2": refPkg + ".lastPow2", pkgFFT + ".inputPermutation": refPkg + ".inputPermutation",
	"(" + pkgFFT + ".FFT).Transform": "(" + refPkg + ".FFT).Transform",
	pkgRoot + ".parameters": refPkg + ".parameters",
}

func opaqueExcept(m map[string]bool, self string) func(*ssa.Function) (bool, bool) {
	return func(f *ssa.Function) (bool, bool) {
		n := canonFunc(f)
		if n == self {
			return false, false
		}
		pure, ok := m[n]
		return ok, pure
	}
}

// callsBack: the callees of fn listed in opaque whose body calls fn.
func callsBack(fn *ssa.Function, opaque map[string]bool) map[string]bool {
	out := map[string]bool{}
	self := canonFunc(fn)
	for _, b := range fn.Blocks {
		for _, in := range b.Instrs {
			ci, ok := in.(ssa.CallInstruction)
			if !ok {
				continue
			}
			g := ci.Common().StaticCallee()
			if g == nil || g == fn {
				continue
			}
			if _, isOpaque := opaque[canonFunc(g)]; !isOpaque {
				continue
			}
			for _, gb := range g.Blocks {
				for _, gi := range gb.Instrs {
					if gc, ok := gi.(ssa.CallInstruction); ok {
						if h := gc.Common().StaticCallee(); h != nil && canonFunc(h) == self {
							out[canonFunc(g)] = true
						}
					}
				}
			}
		}
	}
	return out
}

// isSentinelError: t reads a package-level variable that is never reassigned and is initialised by errors.New or
// fmt.Errorf (a non-nil error created once instead of at the return).
func isSentinelError(p *Prog, t *Term) bool {
	root := t
	for root != nil && (root.Op == "at" || root.Op == "ld") && len(root.Args) == 1 {
		root = root.Args[0]
	}
	if root == nil || root.K != KSym || root.Sym.Kind != SGlobal {
		return false
	}
	g, ok := root.Sym.Obj.(*ssa.Global)
	if !ok || g.Pkg == nil || g.Pkg.Pkg == nil || !readOnlyGlobal(p, g) {
		return false
	}
	lit := p.GlobalLit(g.Pkg.Pkg.Path(), g.Name())
	if lit == nil {
		return false
	}
	call, ok := lit.Expr.(*ast.CallExpr)
	if !ok {
		return false
	}
	sel, ok := call.Fun.(*ast.SelectorExpr)
	if !ok {
		return false
	}
	pk, ok := sel.X.(*ast.Ident)
	if !ok {
		return false
	}
	return (pk.Name == "errors" && sel.Sel.Name == "New") || (pk.Name == "fmt" && sel.Sel.Name == "Errorf")
}

var posTabCache = map[*ssa.Global]map[string]bool{}

// positiveTableLoad: t = ld(table, index[, ".field"]) reads a read-only package-level literal table of numbers (or of
// records with numeric fields) in which every entry (every row's field) is >= 1.
func positiveTableLoad(p, rp *Prog, t *Term) bool {
	if len(t.Args) < 2 || len(t.Args) > 3 || t.Args[0].K != KSym || t.Args[0].Sym.Kind != SGlobal || t.Ty != TInt {
		return false
	}
	g, ok := t.Args[0].Sym.Obj.(*ssa.Global)
	if !ok {
		return false
	}
	field := ""
	if len(t.Args) == 3 {
		f, ok := t.Args[2].StrVal()
		if !ok {
			return false
		}
		field = f
	}
	if c, ok := posTabCache[g]; ok {
		if v, ok := c[field]; ok {
			return v
		}
	} else {
		posTabCache[g] = map[string]bool{}
	}
	res := false
	for _, pr := range []*Prog{p, rp} {
		if pr == nil || g.Pkg == nil || g.Pkg.Pkg == nil {
			continue
		}
		lit := pr.GlobalLit(g.Pkg.Pkg.Path(), g.Name())
		if lit == nil || len(lit.Elems) == 0 || !readOnlyGlobal(pr, g) {
			continue
		}
		res = true
		for _, el := range lit.Elems {
			c := el.Const
			if field != "" {
				c = nil
				if fl, ok := el.Fields[strings.TrimPrefix(field, ".")]; ok && fl != nil {
					c = fl.Const
				}
			}
			if c == nil || c.Kind() != constant.Int {
				res = false
				break
			}
			if v, exact := constant.Int64Val(c); !exact || v < 1 {
				res = false
				break
			}
		}
		break
	}
	posTabCache[g][field] = res
	return res
}

type eqResult struct {
	OK      bool
	Fails   []string
	Und     []string
	NLoops  int
	NEvents int
	NCmp    int
	Where   string
	A, B    *Summary
	M       *Matcher
}

func runEquiv(c *Check, p *Prog, spec eqSpec, points int) *eqResult {
	res := &eqResult{Where: "-"}
	rp, err := LoadRef()
	if err != nil {
		res.Und = append(res.Und, "reference package does not load: "+err.Error())
		return res
	}
	fa := p.Func(spec.Pkg, spec.Name)
	fb := rp.Func(refPkg, spec.RefName)
	if fa == nil {
		res.Fails = append(res.Fails, fmt.Sprintf("anchor %s.%s not found in the repository", spec.Pkg, spec.Name))
		return res
	}
	if fb == nil {
		res.Und = append(res.Und, "reference function "+spec.RefName+" missing")
		return res
	}
	res.Where = p.Pos(fa.Pos())
	S := NewStore()
	ro := map[string]bool{}
	for k, v := range repoOpaque {
		ro[k] = v
	}
	for k, v := range spec.KeepOpaque {
		ro[k] = v
	}
	for k := range spec.Inline {
		delete(ro, k)
	}
	rfo := refOpaque
	if spec.Mutual {
		rfo = map[string]bool{}
		for k, v := range refOpaque {
			rfo[k] = v
		}
		for k := range callsBack(fa, ro) {
			delete(ro, k)
		}
		for k := range callsBack(fb, rfo) {
			delete(rfo, k)
		}
	}
	xa := NewExt(p, S, Config{Opaque: opaqueExcept(ro, canonFunc(fa))})
	xb := NewExt(rp, S, Config{Opaque: opaqueExcept(rfo, canonFunc(fb))})
	sa := xa.Summarize(fa, nil, nil)
	sb := xb.Summarize(fb, nil, nil)
	res.A, res.B = sa, sb
	if len(sa.Undecided) > 0 {
		res.Und = append(res.Und, sa.Undecided...)
		return res
	}
	if len(sb.Undecided) > 0 {
		res.Und = append(res.Und, "reference: "+strings.Join(sb.Undecided, "; "))
		return res
	}
	posLoad = func(t *Term) bool { return positiveTableLoad(p, rp, t) }
	normalizeSummary(S, sa)
	normalizeSummary(S, sb)
	posLoad = nil
	m := NewMatcher(S, p, rp, sa, sb, uint64(c.Seed)*7919+13, points)
	for k, v := range refAlias {
		m.GlobalAlias[k] = v
	}
	for k, v := range spec.Dom {
		m.Env.Dom[k] = v
	}
	m.IgnoreCallees = spec.Ignore
	collectConstTables(p, sa, m.Env.Tables)
	collectConstTables(rp, sb, m.Env.Tables)
	m.Exact = spec.Exact
	res.OK = m.Run()
	if (!res.OK && os.Getenv("VERIF_DUMP_EQ") != "") || os.Getenv("VERIF_DUMP_EQ") == "always" {
		fmt.Fprintf(os.Stderr, "==== code\n%s==== ref\n%s", sa.Dump(p), sb.Dump(rp))
	}
	res.Fails = m.Fails
	res.NLoops, res.NEvents, res.NCmp = m.nLoops, m.nEvents, m.nCmp
	res.M = m
	if len(m.Env.Errs) > 0 {
		res.Und = append(res.Und, m.Env.Errs[0])
		res.OK = false
	}
	return res
}

func pointsFor(c *Check) int {
	if c.Tier == "thorough" {
		return 384
	}
	return 24
}

// checkEquiv emits one obligation for "repository function ≡ reference formulation".
func checkEquiv(c *Check, p *Prog, rule, key string, spec eqSpec, what string) bool {
	r := runEquiv(c, p, spec, pointsFor(c))
	if !r.OK && len(r.Und) == 0 {
		// other formulations of the same computation (ref functions named <RefName>_alt<k>; each carries its
		// own equivalence argument with the primary one in its comment): matching any of them is as good
		if rp, err := LoadRef(); err == nil {
			for k := 1; k < 10; k++ {
				alt := fmt.Sprintf("%s_alt%d", spec.RefName, k)
				if rp.Func(refPkg, alt) == nil {
					break
				}
				sp2 := spec
				sp2.RefName = alt
				if r2 := runEquiv(c, p, sp2, pointsFor(c)); r2.OK && len(r2.Und) == 0 {
					r, spec = r2, sp2
					break
				} else if os.Getenv("VERIF_DEBUG_ALT") != "" {
					fmt.Fprintf(os.Stderr, "alt %s: %v %v\n", alt, r2.Fails, r2.Und)
				}
			}
		}
	}
	if !r.OK && len(r.Und) == 0 && !spec.Mutual {
		sp2 := spec
		sp2.Mutual = true
		if r2 := runEquiv(c, p, sp2, pointsFor(c)); r2.OK && len(r2.Und) == 0 {
			r, spec = r2, sp2
		} else if os.Getenv("VERIF_DEBUG_ALT") != "" {
			fmt.Fprintf(os.Stderr, "mutual: %v %v\n", r2.Fails, r2.Und)
		}
	}
	if c.Tier == "thorough" && r.OK && len(r.Und) == 0 {
		// two more independent seeds
		base := c.Seed
		for _, k := range []int64{1, 2} {
			c.Seed = base*1000003 + k*7919
			r2 := runEquiv(c, p, spec, pointsFor(c))
			r2.NCmp += r.NCmp
			r = r2
			if !r.OK || len(r.Und) > 0 {
				break
			}
		}
		c.Seed = base
	}
	if len(r.Und) > 0 {
		c.Undecided(rule, key, r.Where, "structure not covered by the recogniser: %s", trunc(strings.Join(r.Und, "; "), 500))
		return false
	}
	if !r.OK {
		c.Fail(rule, key, r.Where, "%s.%s is not the reference computation (%s): %s", shortName(spec.Pkg), spec.Name, what, trunc(strings.Join(r.Fails, " ;; "), 1200))
		return false
	}
	c.Ok(rule, key, r.Where, "%s ≡ reference %s (%s): %d loops, %d events, %d term comparisons at %d random points each", spec.Name, spec.RefName, what, r.NLoops, r.NEvents, r.NCmp, pointsFor(c))
	return true
}

// ---- decision tables: evaluate a loop-free term at every critical point of one integer input ----

// criticalInts collects the integers at which some comparison atom of t (linear in the input symbol) flips.
func criticalInts(t *Term, in *Term) (pts []int64, nonlinear []string) {
	seen := map[int64]bool{}
	Walk(t, map[*Term]bool{}, func(x *Term) {
		if x.Op != "le0" && x.Op != "eq0" {
			if (x.Op == "flt" || x.Op == "fle" || x.Op == "feq") && mentions(x, in) {
				nonlinear = append(nonlinear, x.String())
			}
			return
		}
		atoms, coefs, off := linParts(x.Args[0])
		var a int64
		for i, at := range atoms {
			if at == in {
				a = coefs[i].Int64()
			} else if mentions(at, in) {
				nonlinear = append(nonlinear, x.String())
				return
			} else {
				return // depends on other symbols: not a threshold on the input alone
			}
		}
		if a == 0 {
			return
		}
		b := off.Int64()
		x0 := int64(math.Floor(float64(-b) / float64(a)))
		for d := int64(-2); d <= 2; d++ {
			seen[x0+d] = true
		}
	})
	for k := range seen {
		pts = append(pts, k)
	}
	sort.Slice(pts, func(i, j int) bool { return pts[i] < pts[j] })
	return
}

func evalAt(t *Term, sym *Symbol, v int64, extra map[*Symbol]Val) Val {
	e := NewEnv(1)
	e.Over[sym] = Val{K: TInt, I: v}
	for k, x := range extra {
		e.Over[k] = x
	}
	return e.Eval(t)
}

// ---- C11 ----

func ruleC11(c *Check, p *Prog) {
	c.Explanation = "Decides SingleDetect structurally: R-SD-READ one make([]byte,numByte), one io.ReadFull(source,data), error edge returns (false, err), no other use of source; " +
		"R-SD-PART the too-short error and the pattern length m as a function of numByte, evaluated at every critical point of the extracted decision term (and every numByte in 0..4096 in the thorough tier): " +
		"[0,15]->error, [16,39]->2, [40,1279]->4, [1280,inf)->8; R-SD-VERDICT the non-error return is (P >= Alpha, nil) with P result #0 of PokerTestBytes(data, m) on the buffer read. " +
		"NOT decided: the poker P-value itself (C01)."
	sd := analyzeSingle(c, p)
	if sd == nil {
		return
	}
	S := sd.X.S
	where := p.Pos(sd.Fn.Pos())
	// R-SD-READ
	okRead := sd.Read != nil && sd.Read.Loop == nil && sd.Read.Guard == S.True
	var numByte *Term
	if len(sd.Sum.Params) > 1 {
		numByte = sd.Sum.Params[1]
	}
	if okRead {
		root, off, ln, ok := isSliceOf(sd.Read.Args[1])
		al := objAlloc(sd.Sum, root)
		okRead = ok && isZero(off) && al != nil && al.Len == ln && ln == numByte
	}
	c.Expect(okRead, "R-SD-READ", "SingleDetect", where, "exactly one io.ReadFull(source, make([]byte, numByte)); source has no other use", "the requested bytes are not read by one io.ReadFull into make([]byte, numByte)")
	checkErrSingle(c, p, sd)
	if sd.Poker == nil || len(sd.Poker.Args) != 2 || numByte == nil || numByte.K != KSym {
		c.Fail("R-SD-PART", "SingleDetect", where, "no single PokerTestBytes(data, m) call found")
		return
	}
	okData := sd.Read != nil && sd.Poker.Args[0] == sd.Read.Args[1]
	c.Expect(okData && sd.Poker.Callee == pkgRoot+".PokerTestBytes", "R-SD-VERDICT", "SingleDetect/data", wherePos(p, sd.Poker), "PokerTestBytes is applied to the buffer read", "PokerTestBytes is not applied to the buffer that was read")
	// R-SD-PART
	mT := sd.Poker.Args[1]
	// error guard: the return (false, non-nil) that is not the read error
	var shortRet *Event
	errT := S.mkOp("extract1", TRef, S.SymTerm(sd.Read.Res))
	for _, r := range sd.Sum.Rets {
		if r.Dead || len(r.Rets) != 2 {
			continue
		}
		if bv, ok := r.Rets[0].BoolVal(); ok && !bv && r.Rets[1] != errT && (r.Rets[1].Op == "call:errors.New" || r.Rets[1].Op == "call:fmt.Errorf" || isSentinelError(p, r.Rets[1])) {
			shortRet = r
		}
	}
	if shortRet == nil {
		c.Fail("R-SD-PART", "SingleDetect/too-short", where, "no `return false, <new error>` for too-short requests")
		return
	}
	readOK := S.Cmp("==", errT, S.Nil)
	okSym := map[*Symbol]Val{}
	// evaluate under "read succeeded"
	shortG := S.Restrict(shortRet.Guard, readOK)
	pokerG := S.Restrict(sd.Poker.Guard, readOK)
	pts, nonlin := criticalInts(S.mkOp("tuple", TTuple, mT, shortG, pokerG), numByte)
	if len(nonlin) > 0 {
		c.Undecided("R-SD-PART", "SingleDetect", where, "decision depends on numByte through a non-linear comparison: %s", strings.Join(nonlin, "; "))
		return
	}
	pts = append(pts, 0, 1, 15, 16, 39, 40, 1279, 1280, 4096, 1<<20, 1<<28)
	if c.Tier == "thorough" {
		for v := int64(0); v <= 4096; v++ {
			pts = append(pts, v)
		}
	}
	ref := func(x int64) (bool, int64) {
		switch {
		case x < 16:
			return true, 0
		case x < 40:
			return false, 2
		case x < 1280:
			return false, 4
		}
		return false, 8
	}
	var bad []string
	n := 0
	for _, x := range pts {
		if x < 0 {
			continue
		}
		n++
		// read error symbol forced to nil: the Restrict above removed it from the guards
		isShort := evalAt(shortG, numByte.Sym, x, okSym).B
		wantShort, wantM := ref(x)
		if isShort != wantShort {
			bad = append(bad, fmt.Sprintf("numByte=%d: too-short error %v, required %v", x, isShort, wantShort))
			continue
		}
		if !wantShort {
			reach := evalAt(pokerG, numByte.Sym, x, okSym).B
			m := evalAt(mT, numByte.Sym, x, okSym)
			if !reach || m.I != wantM {
				bad = append(bad, fmt.Sprintf("numByte=%d (%d bits): poker reached=%v with m=%d, required m=%d", x, 8*x, reach, m.I, wantM))
			}
		}
		if len(bad) > 4 {
			break
		}
	}
	c.Expect(len(bad) == 0, "R-SD-PART", "SingleDetect", wherePos(p, sd.Poker),
		fmt.Sprintf("error below 16 bytes; m=2 for 16..39, m=4 for 40..1279, m=8 from 1280 bytes — evaluated at %d points including every boundary of the extracted decision term", n),
		strings.Join(bad, "; "))
	// R-SD-VERDICT
	alpha, _ := constFloat(p, pkgRoot, "Alpha")
	pv := S.mkOp("extract0", TFloat, S.SymTerm(sd.Poker.Res))
	want := S.Cmp(">=", pv, S.Float(alpha))
	var verdict *Event
	for _, r := range sd.Sum.Rets {
		if !r.Dead && len(r.Rets) == 2 && r.Rets[0] == want && r.Rets[1].IsNil() && S.Equivalent(r.Guard, sd.Poker.Guard) {
			verdict = r
		}
	}
	nret := 0
	for _, r := range sd.Sum.Rets {
		if !r.Dead {
			nret++
		}
	}
	c.Expect(verdict != nil && nret == 3 && alpha == 0.01, "R-SD-VERDICT", "SingleDetect", where,
		"the only non-error return is (P >= Alpha(0.01), nil) with P = result #0 of the poker call",
		fmt.Sprintf("the non-error return is not (P >= Alpha, nil) on the poker P-value (returns: %d)", nret))
	if c.Prop == "C11" {
		// the poker test itself for m = 2 (bit path) and m = 4, 8 (byte path), shared with C01
		for _, sp := range c01Specs {
			if sp.Key == "PokerProto" || sp.Key == "PokerTestBytes" {
				checkEquiv(c, p, sp.Rule, sp.Key, sp.Spec, sp.What)
			}
		}
		// ... and what the poker test stands on: the tail function that turns its statistic into the P-value compared with
		// Alpha (stateless Cephes recurrences: a memo keyed on (a, x) is a load/store the reference does not have) and the
		// byte -> bit adapter of the m = 2 path (fresh MSB-first expansion, not a view of shared storage)
		for _, sp := range c06Specs[:2] {
			checkEquiv(c, p, "R-CHAIN-IGAMC", sp.Key, sp.Spec, sp.What)
		}
		checkBitAdapters(c, p)
	}
}

// checkBitAdapters: B2bit / B2bitArr, through which every *TestBytes entry point and registry runner reaches the bit-level
// test, are the reference MSB-first expansions into FRESH storage (no cache keyed on the buffer identity, no shared table).
func checkBitAdapters(c *Check, p *Prog) {
	checkEquiv(c, p, "R-MSB", "B2bit", eqSpec{Pkg: pkgRoot, Name: "B2bit", RefName: "B2bit", Dom: map[string]Domain{"param:0": {Lo: 0, Hi: 255}}}, "masks 0x80..0x01 in order")
	checkEquiv(c, p, "R-MSB", "B2bitArr", eqSpec{Pkg: pkgRoot, Name: "B2bitArr", RefName: "B2bitArr", Inline: map[string]bool{pkgRoot + ".B2bitArr": true}}, "append B2bit(b) for every byte in order")
}

// ---- C12 ----

func ruleC12(c *Check, p *Prog) {
	c.Explanation = "Decides Threshold and ThresholdQ by structural equivalence with reference formulations written from the property statement " +
		"(random interpretation of the extracted expression DAGs; comparison atoms compared by boundary and strictness, so < vs <= and moved bin edges are refuted): " +
		"R-THR-FORMULA Threshold(s) = int(ceil(s(1-a-3 sqrt(a(1-a)/s)))) with a = Alpha = 0.01, plus constant folding of the extracted closed form at s=20,50,1000 (19,48,981) and, thorough, every s <= 10^6 against exact rational arithmetic; " +
		"R-TQ-EQUIV ten-way binning [0,.1),...,[.9,1], chi-square against len/10, Igamc(4.5, V/2); R-TQ-COMMUTE the only effects of the binning loop are +1 increments of constant-index counters and the element is used only in comparisons (order-independent). " +
		"NOT decided: Igamc's numeric accuracy (C06)."
	alpha, _ := constFloat(p, pkgRoot, "Alpha")
	alphaT, _ := constFloat(p, pkgRoot, "AlphaT")
	c.Expect(alpha == 0.01 && alphaT == 0.0001, "R-TABLE", "Alpha/AlphaT", "structs.go:4", "Alpha = 0.01, AlphaT = 0.0001", fmt.Sprintf("Alpha=%v AlphaT=%v", alpha, alphaT))
	checkEquiv(c, p, "R-THR-FORMULA", "Threshold", eqSpec{Pkg: pkgDetect, Name: "Threshold", RefName: "Threshold", Dom: map[string]Domain{"param:0": {Lo: 1, Hi: 1000000}}}, "ceil(s(1-a-3sqrt(a(1-a)/s)))")
	// folded values
	fn := p.Func(pkgDetect, "Threshold")
	if fn != nil {
		x := NewExt(p, NewStore(), Config{})
		sum := x.Summarize(fn, nil, nil)
		if len(sum.Rets) == 1 && len(sum.Rets[0].Rets) == 1 && sum.Params[0].K == KSym && sum.NLoops == 0 {
			t := sum.Rets[0].Rets[0]
			var bad []string
			n := 0
			check := func(s int64, want int64) {
				n++
				got := evalAt(t, sum.Params[0].Sym, s, nil)
				if got.I != want && len(bad) < 4 {
					bad = append(bad, fmt.Sprintf("Threshold(%d) folds to %d, required %d", s, got.I, want))
				}
			}
			check(20, 19)
			check(50, 48)
			check(1000, 981)
			// every s whose real-valued bound is exactly an integer (where ceil, floor+1 and round disagree), found by integer arithmetic
			for s := int64(1); s <= 1000000; s++ {
				if thresholdBoundIsInteger(s) {
					check(s, exactThreshold(s))
					check(s+1, exactThreshold(s+1))
					check(s-1+2*int64(btoi(s == 1)), exactThreshold(s-1+2*int64(btoi(s == 1))))
				}
			}
			if c.Tier == "thorough" {
				for s := int64(1); s <= 1000000; s++ {
					check(s, exactThreshold(s))
				}
			} else {
				for _, s := range []int64{1, 2, 3, 10, 100, 999, 12345, 1000000} {
					check(s, exactThreshold(s))
				}
			}
			c.Expect(len(bad) == 0, "R-THR-FORMULA", "Threshold/folded", p.Pos(fn.Pos()), fmt.Sprintf("the extracted closed form folds to the required integer at %d values of s (19 of 20, 48 of 50, 981 of 1000)", n), strings.Join(bad, "; "))
		} else {
			c.Undecided("R-THR-FORMULA", "Threshold/folded", p.Pos(fn.Pos()), "Threshold is not a loop-free single-return closed form")
		}
	}
	checkEquiv(c, p, "R-TQ-EQUIV", "ThresholdQ", eqSpec{Pkg: pkgDetect, Name: "ThresholdQ", RefName: "ThresholdQ"}, "10 bins [0,.1)…[.9,1], chi-square vs len/10, Igamc(4.5, V/2)")
	checkTQCommute(c, p, "R-TQ-COMMUTE")
	// Q(9/2, .) is the library's incomplete gamma function (shared with C06)
	for _, sp := range c06Specs {
		checkEquiv(c, p, sp.Rule, sp.Key, sp.Spec, sp.What)
	}
}

// exactThreshold computes ceil(s(1 - a - 3 sqrt(a(1-a)/s))) with a = 1/100 in extended precision,
// independent of the repository: r = 0.99 s - 3 sqrt(0.0099 s).
func exactThreshold(s int64) int64 {
	// r = 0.99*s - 3*sqrt(0.0099*s). Decide ceil by integer arithmetic: r <= k  <=>  0.99 s - k <= 3 sqrt(0.0099 s)
	// For candidate k: let d = 99 s - 100 k (scaled by 100). r <= k <=> d/100 <= 3 sqrt(99 s)/100 <=> d <= 3 sqrt(99 s)
	// <=> d <= 0 or d*d <= 9*99*s.
	le := func(k int64) bool { // r <= k
		d := 99*s - 100*k
		if d <= 0 {
			return true
		}
		return d*d <= 9*99*s
	}
	k := int64(math.Ceil(float64(s) * (1 - 0.01 - 3*math.Sqrt(0.01*0.99/float64(s)))))
	for !le(k) {
		k++
	}
	for le(k - 1) {
		k--
	}
	return k
}

func checkTQCommute(c *Check, p *Prog, rule string) {
	fn := p.Func(pkgDetect, "ThresholdQ")
	if fn == nil {
		c.Fail(rule, "ThresholdQ", "-", "function not found")
		return
	}
	x := NewExt(p, NewStore(), Config{Opaque: opaquePkgs([]string{pkgRoot}, true, nil)})
	sum := x.Summarize(fn, nil, nil)
	S := x.S
	where := p.Pos(fn.Pos())
	if len(sum.Undecided) > 0 {
		c.Undecided(rule, "ThresholdQ", where, "%s", strings.Join(sum.Undecided, "; "))
		return
	}
	in := sum.Params[0]
	var bad []string
	nInc := 0
	var inLoop *LoopS
	sum.Top.AllLoops(func(l *LoopS) {
		uses := false
		l.Body.Events(func(e *Event, _ []*LoopS) {
			if eventMentions(e, in) || mentions(e.Guard, in) {
				uses = true
			}
		})
		if uses {
			inLoop = l
		}
	})
	if inLoop == nil {
		c.Fail(rule, "ThresholdQ", where, "no loop over the Q-value list")
		return
	}
	if len(nonAffine(inLoop)) > 0 {
		bad = append(bad, "the loop over the list carries state: "+carriedNames(nonAffine(inLoop)))
	}
	elem := S.mkOp("ld", TFloat, in, iterTerm(S, inLoop))
	// objects written inside the loop (the counters); everything else the loop reads is read-only in it
	written := map[*Term]bool{}
	local := map[*Term]bool{} // objects allocated inside the loop: per-element scratch
	inLoop.Body.Events(func(e *Event, _ []*LoopS) {
		if e.Kind == "alloc" && e.Res != nil {
			local[S.SymTerm(e.Res)] = true
		}
	})
	inLoop.Body.Events(func(e *Event, _ []*LoopS) {
		if e.Kind == "store" && !local[e.Root] {
			written[e.Root] = true
		}
	})
	readsCounter := func(t *Term) bool {
		found := false
		if t == nil {
			return false
		}
		Walk(t, map[*Term]bool{}, func(u *Term) {
			if u.K == KSym && u.Sym.Ev != nil && u.Sym.Ev.Kind == "load" && written[u.Sym.Ev.Root] {
				found = true
			}
		})
		return found
	}
	inLoop.Body.Events(func(e *Event, _ []*LoopS) {
		switch e.Kind {
		case "load":
			if mentions(e.Root, in) {
				bad = append(bad, "load "+e.String(p))
			}
			// a load of a counter is accepted with the increment it feeds (below); any other object is not written in the loop
		case "alloc":
		case "store":
			okk := false
			if local[e.Root] {
				// filling per-element scratch: fine as long as nothing from the counters or other elements flows in
				if !readsCounter(e.Val) && !mentionsOther(e.Val, in, elem) {
					break
				}
			}
			if !mentions(e.Val, in) {
				as, cs, off := linParts(e.Val)
				if len(as) == 1 && cs[0].Int64() == 1 && off.Int64() == 1 && as[0].K == KSym && as[0].Sym.Ev != nil && as[0].Sym.Ev.Kind == "load" && as[0].Sym.Ev.Root == e.Root && samePath(as[0].Sym.Ev.Path, e.Path) {
					okk = true
					nInc++
				}
			}
			for _, ix := range e.Path {
				if readsCounter(ix) {
					okk = false
				}
			}
			if !okk {
				bad = append(bad, "store "+e.String(p))
			}
		default:
			bad = append(bad, e.Kind+" "+e.String(p))
		}
		if readsCounter(e.Guard) {
			bad = append(bad, "guard depends on a counter: "+e.String(p))
		}
		// the element may appear in guards only as ld(in, i)
		Walk(e.Guard, map[*Term]bool{}, func(t *Term) {
			if t.Op == "ld" && len(t.Args) >= 1 && t.Args[0] == in && t != elem {
				bad = append(bad, "guard reads another element: "+t.String())
			}
		})
	})
	// inner loops (a scan over a bounds table) are per-element: they start from constants and never look at the counters
	inLoop.Body.AllLoops(func(l *LoopS) {
		for _, cv := range l.Carried {
			if readsCounter(cv.Init) || readsCounter(cv.Next) || mentionsOther(cv.Init, in, elem) || mentionsOther(cv.Next, in, elem) {
				bad = append(bad, "inner loop state "+cv.Name+" depends on the counters or on another element")
			}
		}
		for _, ex := range l.Exits {
			if readsCounter(ex.Guard) || mentionsOther(ex.Guard, in, elem) {
				bad = append(bad, "inner loop exit depends on the counters or on another element")
			}
		}
	})
	// after the loop the input is used only through its length
	sum.Top.Events(func(e *Event, loops []*LoopS) {
		for _, l := range loops {
			if l == inLoop {
				return
			}
		}
		uses := false
		chk := func(t *Term) {
			Walk(t, map[*Term]bool{}, func(u *Term) {
				if u.Op == "ld" && len(u.Args) >= 1 && u.Args[0] == in {
					uses = true
				}
			})
		}
		for _, a := range e.Args {
			chk(a)
		}
		chk(e.Val)
		for _, r := range e.Rets {
			chk(r)
		}
		chk(e.Guard)
		if uses {
			bad = append(bad, "element read outside the binning loop: "+e.String(p))
		}
	})
	c.Expect(len(bad) == 0 && nInc >= 1, rule, "ThresholdQ", where,
		fmt.Sprintf("the binning loop's only effects are %d `+1` increments of counters whose index and guard depend on the current element alone (never on a counter); elements are read nowhere else => permutation-invariant", nInc),
		strings.Join(bad, " | "))
}

func btoi(b bool) int {
	if b {
		return 1
	}
	return 0
}

// thresholdBoundIsInteger: 0.99 s - 3 sqrt(0.0099 s) is an integer, i.e. (99 s - 100 k)^2 = 9*99*s for some integer k with 99 s - 100 k >= 0.
func thresholdBoundIsInteger(s int64) bool {
	// d = 3*sqrt(99 s) must be an integer with d ≡ 99 s (mod 100)
	q := 9 * 99 * s
	d := int64(math.Sqrt(float64(q)))
	for d*d > q {
		d--
	}
	for (d+1)*(d+1) <= q {
		d++
	}
	if d*d != q {
		return false
	}
	return (99*s-d)%100 == 0
}

// mentionsOther: t reads an element of in other than elem.
func mentionsOther(t, in, elem *Term) bool {
	found := false
	if t == nil {
		return false
	}
	Walk(t, map[*Term]bool{}, func(u *Term) {
		if u.Op == "ld" && len(u.Args) >= 1 && u.Args[0] == in && u != elem {
			found = true
		}
	})
	return found
}

package main

import (
	"fmt"
	"go/ast"
	"go/token"
	"go/types"
	"os"
	"path/filepath"
	"sort"
	"strings"

	"golang.org/x/tools/go/callgraph"
	"golang.org/x/tools/go/callgraph/cha"
	"golang.org/x/tools/go/callgraph/vta"
	"golang.org/x/tools/go/packages"
	"golang.org/x/tools/go/ssa"
	"golang.org/x/tools/go/ssa/ssautil"
)

const modPath = "github.com/Trisia/randomness"

var wantPkgs = []string{
	modPath,
	modPath + "/detect",
	modPath + "/fft",
	modPath + "/tools/rddetector",
	modPath + "/tools/rdgen",
}

type Prog struct {
	Dir   string
	Fset  *token.FileSet
	Pkgs  map[string]*packages.Package
	SSA   *ssa.Program
	SPkgs map[string]*ssa.Package
	cg    *callgraph.Graph
	NFunc int
}

// LoadProg loads and type-checks the module rooted at dir and builds SSA for it.
// Any load or type error is returned: a check that cannot see its anchors has not shown the property.
func LoadProg(dir string, patterns []string, want []string, env []string) (*Prog, error) {
	cfg := &packages.Config{
		Mode:  packages.LoadAllSyntax,
		Dir:   dir,
		Tests: false,
		Env:   append(append(os.Environ(), "GOFLAGS=-mod=mod", "GOPROXY=off", "GOSUMDB=off", "GOTOOLCHAIN=local", "GOWORK=off"), env...),
	}
	pkgs, err := packages.Load(cfg, patterns...)
	if err != nil {
		return nil, fmt.Errorf("packages.Load: %v", err)
	}
	if len(pkgs) == 0 {
		return nil, fmt.Errorf("no packages loaded from %s", dir)
	}
	var errs []string
	packages.Visit(pkgs, nil, func(p *packages.Package) {
		for _, e := range p.Errors {
			errs = append(errs, e.Error())
		}
	})
	if len(errs) > 0 {
		return nil, fmt.Errorf("load/type errors: %s", strings.Join(errs, "; "))
	}
	p := &Prog{Dir: dir, Pkgs: map[string]*packages.Package{}, SPkgs: map[string]*ssa.Package{}}
	for _, pk := range pkgs {
		p.Pkgs[pk.PkgPath] = pk
		p.Fset = pk.Fset
	}
	for _, w := range want {
		if p.Pkgs[w] == nil {
			return nil, fmt.Errorf("expected package %s not found", w)
		}
	}
	prog, spkgs := ssautil.AllPackages(pkgs, ssa.InstantiateGenerics)
	prog.Build()
	p.SSA = prog
	for i, sp := range spkgs {
		if sp == nil {
			return nil, fmt.Errorf("no SSA for package %s", pkgs[i].PkgPath)
		}
		p.SPkgs[pkgs[i].PkgPath] = sp
	}
	for _, sp := range spkgs {
		for _, m := range sp.Members {
			if f, ok := m.(*ssa.Function); ok && f.Blocks != nil {
				p.NFunc++
				p.NFunc += len(f.AnonFuncs)
			}
		}
	}
	if p.NFunc == 0 {
		return nil, fmt.Errorf("no functions with bodies")
	}
	// structural sanity of the trusted base: no unsafe / reflect / cgo / assembly in the module
	for path, pk := range p.Pkgs {
		for _, f := range pk.Syntax {
			for _, im := range f.Imports {
				ip := strings.Trim(im.Path.Value, `"`)
				if ip == "unsafe" || ip == "reflect" || ip == "C" {
					return nil, fmt.Errorf("package %s imports %s: outside the trusted base of this analysis", path, ip)
				}
			}
		}
		for _, of := range pk.OtherFiles {
			if strings.HasSuffix(of, ".s") || strings.HasSuffix(of, ".c") {
				return nil, fmt.Errorf("package %s has non-Go source %s", path, of)
			}
		}
	}
	return p, nil
}

var refProg *Prog

// LoadRef loads the reference package shipped with the checker.
func LoadRef() (*Prog, error) {
	if refProg != nil {
		return refProg, nil
	}
	p, err := LoadProg(srcDir()+"/checker", []string{"./ref"}, []string{"verif/checker/ref"}, nil)
	if err != nil {
		return nil, err
	}
	refProg = p
	return p, nil
}

func (p *Prog) CallGraph() *callgraph.Graph {
	if p.cg == nil {
		p.cg = vta.CallGraph(ssautil.AllFunctions(p.SSA), cha.CallGraph(p.SSA))
	}
	return p.cg
}

// Func finds a package-level function or method: "pkg.Name" or "pkg.(T).Name" / "pkg.(*T).Name".
func (p *Prog) Func(pkg, name string) *ssa.Function {
	sp := p.SPkgs[pkg]
	if sp == nil {
		return nil
	}
	if strings.HasPrefix(name, "(") {
		// method
		end := strings.Index(name, ")")
		recv := name[1:end]
		mname := name[end+2:]
		ptr := strings.HasPrefix(recv, "*")
		recv = strings.TrimPrefix(recv, "*")
		tm := sp.Members[recv]
		tt, ok := tm.(*ssa.Type)
		if !ok {
			return nil
		}
		var T types.Type = tt.Type()
		if ptr {
			T = types.NewPointer(T)
		}
		ms := p.SSA.MethodSets.MethodSet(T)
		for i := 0; i < ms.Len(); i++ {
			if ms.At(i).Obj().Name() == mname {
				return p.SSA.MethodValue(ms.At(i))
			}
		}
		return nil
	}
	f, _ := sp.Members[name].(*ssa.Function)
	return f
}

func (p *Prog) Global(pkg, name string) *ssa.Global {
	sp := p.SPkgs[pkg]
	if sp == nil {
		return nil
	}
	g, _ := sp.Members[name].(*ssa.Global)
	return g
}

func (p *Prog) Pos(pos token.Pos) string {
	if !pos.IsValid() {
		return "-"
	}
	ps := p.Fset.Position(pos)
	rel, err := filepath.Rel(p.Dir, ps.Filename)
	if err != nil || strings.HasPrefix(rel, "..") {
		rel = ps.Filename
	}
	return fmt.Sprintf("%s:%d", rel, ps.Line)
}

// AllSrcFuncs returns every function with a body in the module packages (including closures), sorted.
func (p *Prog) AllSrcFuncs() []*ssa.Function {
	var out []*ssa.Function
	var add func(f *ssa.Function)
	add = func(f *ssa.Function) {
		if f.Blocks == nil {
			return
		}
		out = append(out, f)
		for _, a := range f.AnonFuncs {
			add(a)
		}
	}
	for path, sp := range p.SPkgs {
		if !strings.HasPrefix(path, modPath) && !strings.HasPrefix(path, "verif/") {
			continue
		}
		for _, m := range sp.Members {
			switch m := m.(type) {
			case *ssa.Function:
				add(m)
			case *ssa.Type:
				for _, T := range []types.Type{m.Type(), types.NewPointer(m.Type())} {
					ms := p.SSA.MethodSets.MethodSet(T)
					for i := 0; i < ms.Len(); i++ {
						if f := p.SSA.MethodValue(ms.At(i)); f != nil && f.Synthetic == "" {
							add(f)
						}
					}
				}
			}
		}
	}
	seen := map[*ssa.Function]bool{}
	var uniq []*ssa.Function
	for _, f := range out {
		if !seen[f] {
			seen[f] = true
			uniq = append(uniq, f)
		}
	}
	sort.Slice(uniq, func(i, j int) bool { return uniq[i].String() < uniq[j].String() })
	return uniq
}

// FuncDecl finds the AST declaration of a package-level function.
func (p *Prog) FuncDecl(pkg, name string) *ast.FuncDecl {
	pk := p.Pkgs[pkg]
	if pk == nil {
		return nil
	}
	for _, f := range pk.Syntax {
		for _, d := range f.Decls {
			if fd, ok := d.(*ast.FuncDecl); ok && fd.Recv == nil && fd.Name.Name == name {
				return fd
			}
		}
	}
	return nil
}

func inModule(f *ssa.Function) bool {
	if f == nil || f.Pkg == nil {
		if f != nil && f.Parent() != nil {
			return inModule(f.Parent())
		}
		return false
	}
	return strings.HasPrefix(f.Pkg.Pkg.Path(), modPath) || strings.HasPrefix(f.Pkg.Pkg.Path(), "verif/")
}

func canonFunc(f *ssa.Function) string {
	if f == nil {
		return "<nil>"
	}
	if f.Object() != nil {
		if fn, ok := f.Object().(*types.Func); ok {
			return fn.FullName()
		}
	}
	return f.String()
}

package main

// Random interpretation of terms (Gulwani–Necula style): terms are evaluated at pseudo-random points;
// two terms over identified symbols are declared equal when values agree at every sampled point and
// the multiset of comparison atoms (boundary + strictness) agrees as well.
// Saturating functions (erfc, erf, exp, lgamma, igamc) are interpreted by injective surrogates.

import (
	"fmt"
	"hash/fnv"
	"math"
	"math/bits"
	"math/cmplx"
	"sort"
	"strings"
)

type Val struct {
	K TyClass
	I int64
	F float64
	B bool
	C complex128
	S string
	R uint64
	T []Val
}

func (v Val) String() string {
	switch v.K {
	case TInt:
		return fmt.Sprint(v.I)
	case TFloat:
		return fmt.Sprint(v.F)
	case TBool:
		return fmt.Sprint(v.B)
	case TComplex:
		return fmt.Sprint(v.C)
	case TString:
		return fmt.Sprintf("%q", v.S)
	case TTuple:
		return fmt.Sprint(v.T)
	}
	return fmt.Sprintf("ref:%x", v.R)
}

type atomRec struct {
	Kind   string
	Key    float64
	Strict bool
	// float comparisons: the operand values and which of them are literal constants (for branch-directed re-evaluation)
	A, B           float64
	AConst, BConst bool
	HasOps         bool
}

// valOver: every non-constant float term whose value is From evaluates to To instead (the compared quantity treated as
// a free variable and moved across the comparison's boundary).
type valOver struct{ From, To float64 }

type Domain struct {
	Lo, Hi int64 // integer symbols
	FLo, FHi float64
}

type Env struct {
	Seed   uint64
	Canon  map[*Symbol]string // canonical identity of symbols (shared between the two programs)
	Over   map[*Symbol]Val
	Dom    map[string]Domain // by canonical identity
	memo   map[*Term]Val
	NoPre  bool // ignore LenAlias/TermOver (path conditions are compared on unconstrained inputs)
	TermOver map[*Term]*Term // term evaluated as another term (a quantity a precondition equates with a length)
	Tables map[*Symbol][]Val // read-only literal tables (consttab.go)
	LenAlias map[string]*Term // "len:<canon>" -> term the length equals under an equality precondition
	Alias  map[*Symbol]*Term // symbol defined as a term over other (canonically identified) symbols
	Atoms  []atomRec
	ValOver *valOver
	Errs   []string
	FnAlias map[string]string // canonical call name aliases (repo function -> reference function)
}

func NewEnv(seed uint64) *Env {
	return &Env{Seed: seed, Canon: map[*Symbol]string{}, Over: map[*Symbol]Val{}, Dom: map[string]Domain{}, memo: map[*Term]Val{}, FnAlias: map[string]string{}, Alias: map[*Symbol]*Term{}, LenAlias: map[string]*Term{}, Tables: map[*Symbol][]Val{}, TermOver: map[*Term]*Term{}}
}

func (e *Env) Reset(seed uint64) {
	e.Seed = seed
	e.memo = map[*Term]Val{}
	e.Atoms = nil
}

func h64(parts ...interface{}) uint64 {
	h := fnv.New64a()
	for _, p := range parts {
		fmt.Fprintf(h, "%v|", p)
	}
	x := h.Sum64()
	// final avalanche
	x ^= x >> 33
	x *= 0xff51afd7ed558ccd
	x ^= x >> 33
	x *= 0xc4ceb9fe1a85ec53
	x ^= x >> 33
	return x
}

func unit(x uint64) float64 { return float64(x>>11) / float64(1<<53) }

func (e *Env) canonOf(sy *Symbol) string {
	if c, ok := e.Canon[sy]; ok {
		return c
	}
	if sy.Canon != "" {
		if a, ok := e.FnAlias[sy.Canon]; ok {
			return a
		}
		return sy.Canon
	}
	if sy.Kind == SOut {
		if o, ok := sy.Obj.(*Symbol); ok {
			return "out:" + e.canonOf(o)
		}
	}
	return fmt.Sprintf("uniq:%d", sy.uid)
}

func (e *Env) randFor(id string, ty TyClass) Val {
	x := h64(e.Seed, id)
	switch ty {
	case TInt:
		d, ok := e.Dom[id]
		if !ok {
			d = Domain{Lo: 0, Hi: 40}
		}
		span := uint64(d.Hi - d.Lo + 1)
		if span == 0 {
			span = 1
		}
		return Val{K: TInt, I: d.Lo + int64(x%span)}
	case TFloat:
		d, ok := e.Dom[id]
		if !ok || d.FHi == d.FLo {
			d = Domain{FLo: 0.05, FHi: 3}
		}
		return Val{K: TFloat, F: d.FLo + (d.FHi-d.FLo)*unit(x)}
	case TBool:
		return Val{K: TBool, B: x&1 == 1}
	case TComplex:
		return Val{K: TComplex, C: complex(unit(x)*2-1, unit(h64(x))*2-1)}
	case TString:
		return Val{K: TString, S: fmt.Sprintf("s%x", x&0xffff)}
	}
	return Val{K: TRef, R: h64("ref", id)}
}

func (e *Env) symVal(sy *Symbol) Val {
	if v, ok := e.Over[sy]; ok {
		return v
	}
	if t, ok := e.Alias[sy]; ok {
		return e.Eval(t)
	}
	if sy.Kind == SIter && sy.Loop != nil && sy.Loop.Bound != nil {
		// iteration counters range over the whole iteration space, with the ends over-represented
		b := e.Eval(sy.Loop.Bound)
		if b.K == TInt && b.I > 0 {
			h := h64(e.Seed, "iter", e.canonOf(sy))
			var v int64
			switch h % 8 {
			case 0:
				v = 0
			case 1:
				v = b.I - 1
			case 2:
				v = b.I - 2
			case 3:
				v = 1
			default:
				v = int64(h64(h) % uint64(b.I))
			}
			if v < 0 {
				v = 0
			}
			return Val{K: TInt, I: v}
		}
	}
	if sy.Kind == SIterEnd {
		// the iteration at which a loop was left: the bound itself when it was left through its head test,
		// some earlier iteration otherwise
		if ls, ok := sy.Obj.(*LoopS); ok && ls.Bound != nil {
			b := e.Eval(ls.Bound)
			var head *Exit
			for _, x := range ls.Exits {
				if x.AtHead && x.Sym != nil && ls.Info != nil && x.From == ls.Info.Header {
					head = x
				}
			}
			if b.K == TInt && b.I >= 0 && head != nil {
				if e.symVal(head.Sym).B {
					return Val{K: TInt, I: b.I}
				}
				if b.I > 0 {
					return Val{K: TInt, I: int64(h64(e.Seed, "iend", e.canonOf(sy)) % uint64(b.I))}
				}
			}
		}
	}
	if sy.Ty == TInt && (sy.Kind == SLoopVar || sy.Kind == SOut) {
		// accumulators and the values they leave a loop with may be negative (walks, differences): sample both signs
		id := e.canonOf(sy)
		if _, ok := e.Dom[id]; !ok {
			return Val{K: TInt, I: int64(h64(e.Seed, id)%61) - 20}
		}
	}
	return e.randFor(e.canonOf(sy), sy.Ty)
}

func valKey(v Val) string {
	switch v.K {
	case TInt:
		return fmt.Sprintf("i%d", v.I)
	case TFloat:
		if exactFloat {
			return fmt.Sprintf("f%b", v.F)
		}
		return fmt.Sprintf("f%.9g", v.F)
	case TBool:
		return fmt.Sprintf("b%v", v.B)
	case TString:
		return "s" + v.S
	case TComplex:
		return fmt.Sprintf("c%.9g", v.C)
	case TTuple:
		var ss []string
		for _, x := range v.T {
			ss = append(ss, valKey(x))
		}
		return "t(" + strings.Join(ss, ",") + ")"
	}
	return fmt.Sprintf("r%x", v.R)
}

// opaque pseudo-random function of evaluated arguments
func (e *Env) opaqueFn(name string, ty TyClass, args []Val) Val {
	parts := []interface{}{"fn", name}
	for _, a := range args {
		parts = append(parts, valKey(a))
	}
	id := fmt.Sprint(parts...)
	switch ty {
	case TTuple:
		return Val{K: TTuple, R: h64(e.Seed, id)}
	}
	v := e.randFor(id, ty)
	return v
}

func surrogate(name string, x float64) float64 {
	if exactFloat {
		// bit-exact mode: results must depend on every bit of the argument
		return unit(h64("sur", name, math.Float64bits(x)))
	}
	k := h64("sur", name)
	k1 := 0.3 + unit(k)
	k2 := 0.5 + unit(h64(k))
	k3 := 0.05 + 0.1*unit(h64(k, 2))
	return k1 + k2*x + k3*x*x*x
}

func toF(v Val) float64 {
	switch v.K {
	case TInt:
		return float64(v.I)
	case TFloat:
		return v.F
	case TBool:
		if v.B {
			return 1
		}
		return 0
	}
	return float64(v.R % 1000)
}

func (e *Env) recAtom(kind string, d float64, strict bool) {
	if kind == "f" {
		if d < 0 {
			d, strict = -d, !strict
		}
	} else {
		d = math.Abs(d)
	}
	e.Atoms = append(e.Atoms, atomRec{Kind: kind, Key: d, Strict: strict})
}

// atomOps attaches the operand values to the atom just recorded.
func (e *Env) atomOps(x, y float64, t *Term) {
	if n := len(e.Atoms); n > 0 {
		r := &e.Atoms[n-1]
		r.A, r.B, r.HasOps = x, y, true
		r.AConst, r.BConst = t.Args[0].K == KConst, t.Args[1].K == KConst
	}
}

func (e *Env) Eval(t *Term) Val {
	if o, ok := e.TermOver[t]; ok && !e.NoPre {
		return e.Eval(o)
	}
	if v, ok := e.memo[t]; ok {
		return v
	}
	v := e.eval(t)
	if e.ValOver != nil && v.K == TFloat && t.K != KConst && v.F == e.ValOver.From {
		v.F = e.ValOver.To
	}
	e.memo[t] = v
	return v
}

func (e *Env) eval(t *Term) Val {
	switch t.K {
	case KConst:
		switch t.Ty {
		case TInt:
			i, _ := t.IntVal()
			return Val{K: TInt, I: i}
		case TFloat:
			f, _ := t.FloatVal()
			return Val{K: TFloat, F: f}
		case TBool:
			b, _ := t.BoolVal()
			return Val{K: TBool, B: b}
		case TString:
			s, _ := t.StrVal()
			return Val{K: TString, S: s}
		}
		return Val{K: TRef, R: 0}
	case KSym:
		return e.symVal(t.Sym)
	}
	a := func(i int) Val { return e.Eval(t.Args[i]) }
	switch t.Op {
	case "lin":
		acc := t.Off.Int64()
		for i, x := range t.Args {
			acc += t.Coefs[i].Int64() * e.Eval(x).I
		}
		return Val{K: TInt, I: acc}
	case "imul":
		prod := int64(1)
		for i := range t.Args {
			prod *= a(i).I
		}
		return Val{K: TInt, I: prod}
	case "idiv":
		d := a(1).I
		// piecewise: numerator and divisor are part of the signature (n/m vs (n+1)/m agree almost everywhere)
		e.recAtom("idiv-num", float64(a(0).I), false)
		e.recAtom("idiv-den", float64(d), false)
		if d == 0 {
			return Val{K: TInt, I: 0}
		}
		return Val{K: TInt, I: a(0).I / d}
	case "floordiv":
		d := a(1).I
		if d == 0 {
			return Val{K: TInt, I: 0}
		}
		n := a(0).I
		q := n / d
		if (n%d != 0) && ((n < 0) != (d < 0)) {
			q--
		}
		return Val{K: TInt, I: q}
	case "imod":
		d := a(1).I
		// (A % N + rest) % N with A >= 0 and rest >= 0 at this point is (A + rest) % N: a position kept reduced while it
		// is advanced has the discontinuities of the unreduced one
		if num := t.Args[0]; num.Op == "lin" && d > 0 {
			inner := -1
			for i, x := range num.Args {
				if x.Op == "imod" && x.Args[1] == t.Args[1] && num.Coefs[i].IsInt64() && num.Coefs[i].Int64() == 1 {
					inner = i
					break
				}
			}
			if inner >= 0 {
				av := e.Eval(num.Args[inner].Args[0])
				rest := int64(0)
				ok := av.K == TInt && av.I >= 0 && num.Off.IsInt64()
				if ok {
					rest = num.Off.Int64()
					for i, x := range num.Args {
						if i == inner {
							continue
						}
						xv := e.Eval(x)
						if xv.K != TInt || !num.Coefs[i].IsInt64() {
							ok = false
							break
						}
						rest += num.Coefs[i].Int64() * xv.I
					}
				}
				if ok && rest >= 0 {
					e.recAtom("imod-num", float64(av.I+rest), false)
					e.recAtom("imod-den", float64(d), false)
					return Val{K: TInt, I: (av.I + rest) % d}
				}
			}
		}
		e.recAtom("imod-num", float64(a(0).I), false)
		e.recAtom("imod-den", float64(d), false)
		if d == 0 {
			return Val{K: TInt, I: 0}
		}
		return Val{K: TInt, I: a(0).I % d}
	case "max0":
		x := a(0).I
		if x < 0 {
			x = 0
		}
		return Val{K: TInt, I: x}
	case "iabs":
		x := a(0).I
		e.recAtom("iabs", float64(x), false) // where the kink is belongs to the signature (any spelling of abs has it)
		if x < 0 {
			x = -x
		}
		return Val{K: TInt, I: x}
	case "imax":
		x, y := a(0).I, a(1).I
		e.recAtom("imax", float64(x-y), false)
		if y > x {
			x = y
		}
		return Val{K: TInt, I: x}
	case "imin":
		x, y := a(0).I, a(1).I
		e.recAtom("imin", float64(x-y), false)
		if y < x {
			x = y
		}
		return Val{K: TInt, I: x}
	case "shl":
		s := a(1).I
		if s < 0 || s > 62 {
			s = 62
		}
		return Val{K: TInt, I: a(0).I << uint(s)}
	case "shr":
		s := a(1).I
		if s < 0 || s > 62 {
			s = 62
		}
		if _, isConst := t.Args[1].IntVal(); isConst {
			// x >> k jumps where x / 2^k does
			e.recAtom("idiv-num", float64(a(0).I), false)
			e.recAtom("idiv-den", float64(int64(1)<<uint(s)), false)
		}
		return Val{K: TInt, I: a(0).I >> uint(s)}
	case "and":
		return Val{K: TInt, I: a(0).I & a(1).I}
	case "or":
		return Val{K: TInt, I: a(0).I | a(1).I}
	case "xor":
		return Val{K: TInt, I: a(0).I ^ a(1).I}
	case "andnot":
		return Val{K: TInt, I: a(0).I &^ a(1).I}
	case "bitnot":
		return Val{K: TInt, I: ^a(0).I}
	case "fadd":
		return Val{K: TFloat, F: a(0).F + a(1).F}
	case "fsub":
		return Val{K: TFloat, F: a(0).F - a(1).F}
	case "fmul":
		return Val{K: TFloat, F: a(0).F * a(1).F}
	case "fdiv":
		return Val{K: TFloat, F: a(0).F / a(1).F}
	case "fneg":
		return Val{K: TFloat, F: -a(0).F}
	case "i2f":
		return Val{K: TFloat, F: float64(a(0).I)}
	case "f2i":
		f := a(0).F
		e.recAtom("rnd:f2i", f, false) // discontinuous: which rounding is applied where is part of the signature
		if math.IsNaN(f) || math.IsInf(f, 0) || math.Abs(f) > 1e18 {
			return Val{K: TInt, I: 0}
		}
		return Val{K: TInt, I: int64(f)}
	case "f32":
		return Val{K: TFloat, F: float64(float32(a(0).F))}
	case "le0":
		d := a(0).I
		e.recAtom("i", float64(2*d-1), false)
		return Val{K: TBool, B: d <= 0}
	case "eq0":
		d := a(0).I
		e.recAtom("ieq", float64(d), false)
		return Val{K: TBool, B: d == 0}
	case "flt":
		x, y := a(0).F, a(1).F
		d := x - y
		e.recAtom("f", d, true)
		e.atomOps(x, y, t)
		return Val{K: TBool, B: d < 0}
	case "fle":
		x, y := a(0).F, a(1).F
		d := x - y
		e.recAtom("f", d, false)
		e.atomOps(x, y, t)
		return Val{K: TBool, B: d <= 0}
	case "feq":
		x, y := a(0).F, a(1).F
		d := x - y
		e.recAtom("feq", d, false)
		e.atomOps(x, y, t)
		return Val{K: TBool, B: d == 0}
	case "eq":
		x, y := a(0), a(1)
		// comparison of an unknown reference with nil: both outcomes must occur
		if t.Args[0].IsNil() && t.Args[1].K != KConst {
			return Val{K: TBool, B: h64("nil?", valKey(y))&1 == 1}
		}
		if t.Args[1].IsNil() && t.Args[0].K != KConst {
			return Val{K: TBool, B: h64("nil?", valKey(x))&1 == 1}
		}
		if x.K == TComplex && y.K == TComplex {
			// an equality test on computed complex values is a comparison like any other: it never holds at random
			// points, so its presence is part of the signature
			e.recAtom("ceq", cmplx.Abs(x.C-y.C), false)
		}
		return Val{K: TBool, B: valKey(x) == valKey(y)}
	case "bxor":
		return Val{K: TBool, B: a(0).B != a(1).B}
	case "not":
		return Val{K: TBool, B: !a(0).B}
	case "land":
		x, y := a(0), a(1) // evaluate both: atoms of both sides are part of the signature
		return Val{K: TBool, B: x.B && y.B}
	case "lor":
		x, y := a(0), a(1)
		return Val{K: TBool, B: x.B || y.B}
	case "ite":
		c, x, y := a(0), a(1), a(2)
		if c.B {
			return x
		}
		return y
	case "tuple", "mkstruct":
		var vs []Val
		for i := range t.Args {
			vs = append(vs, a(i))
		}
		return Val{K: TTuple, T: vs}
	case "complex":
		return Val{K: TComplex, C: complex(a(0).F, a(1).F)}
	case "real":
		return Val{K: TFloat, F: real(a(0).C)}
	case "imag":
		return Val{K: TFloat, F: imag(a(0).C)}
	case "cadd":
		return Val{K: TComplex, C: a(0).C + a(1).C}
	case "csub":
		return Val{K: TComplex, C: a(0).C - a(1).C}
	case "cmul":
		return Val{K: TComplex, C: a(0).C * a(1).C}
	case "cdiv":
		return Val{K: TComplex, C: a(0).C / a(1).C}
	case "cneg":
		return Val{K: TComplex, C: -a(0).C}
	case "sconcat":
		return Val{K: TString, S: a(0).S + a(1).S}
	case "slice":
		r, o, l := a(0), a(1), a(2)
		return Val{K: TRef, R: h64("slice", valKey(r), o.I, l.I)}
	case "len":
		// the length of a slice-valued field of a row of a read-only literal table of records
		if u := t.Args[0]; (u.Op == "at" || u.Op == "ld") && len(u.Args) == 3 && u.Args[0].K == KSym {
			if tab := e.Tables[u.Args[0].Sym]; tab != nil {
				if iv := e.Eval(u.Args[1]); iv.K == TInt && iv.I >= 0 && iv.I < int64(len(tab)) {
					if el := tab[iv.I]; el.K == TTuple && el.S == "rec" {
						if f, ok := u.Args[2].StrVal(); ok {
							if v, has := recTables[el.R][f+"#len"]; has {
								return v
							}
						}
					}
				}
			}
		}
		x := a(0)
		return e.lenOfRef(t.Args[0], x)
	}
	if strings.HasPrefix(t.Op, "narrow:") {
		x := a(0).I
		switch t.Op[7:] {
		case "uint8", "byte":
			return Val{K: TInt, I: int64(uint8(x))}
		case "int8":
			return Val{K: TInt, I: int64(int8(x))}
		case "uint16":
			return Val{K: TInt, I: int64(uint16(x))}
		case "int16":
			return Val{K: TInt, I: int64(int16(x))}
		case "uint32":
			return Val{K: TInt, I: int64(uint32(x))}
		case "int32":
			return Val{K: TInt, I: int64(int32(x))}
		}
		return Val{K: TInt, I: x}
	}
	if strings.HasPrefix(t.Op, "extract") {
		x := a(0)
		var idx int
		fmt.Sscanf(t.Op, "extract%d", &idx)
		if x.K == TTuple && x.T != nil && idx < len(x.T) {
			return x.T[idx]
		}
		return e.randFor(fmt.Sprint("extract", idx, valKey(x), x.R), t.Ty)
	}
	if strings.HasPrefix(t.Op, "call:") {
		return e.evalCall(t)
	}
	// memory reads and anything else: opaque pure function of the evaluated arguments
	var vs []Val
	for i := range t.Args {
		vs = append(vs, a(i))
	}
	switch t.Op {
	case "ld", "at", "addr", "fieldval", "indexval", "closure", "cap", "substr":
		if t.Op == "ld" && (len(t.Args) == 2 || len(t.Args) == 3) && t.Args[0].K == KSym {
			if tab := e.Tables[t.Args[0].Sym]; tab != nil && vs[1].K == TInt && vs[1].I >= 0 && vs[1].I < int64(len(tab)) {
				el := tab[vs[1].I]
				if len(t.Args) == 3 {
					if el.K != TTuple || el.S != "rec" {
						return e.opaqueFn(t.Op, t.Ty, vs)
					}
					f, _ := t.Args[2].StrVal()
					v, has := recTables[el.R][f]
					if !has {
						return e.opaqueFn(t.Op, t.Ty, vs)
					}
					el = v
				}
				if t.Ty == TFloat && el.K == TInt {
					el = Val{K: TFloat, F: float64(el.I)}
				}
				if el.K == t.Ty {
					return el
				}
			}
		}
		v := e.opaqueFn(t.Op, t.Ty, vs)
		if t.Op == "ld" && t.Ty == TInt {
			// loaded integers: moderate range
			return v
		}
		return v
	}
	if strings.HasPrefix(t.Op, "zero:") || strings.HasPrefix(t.Op, "conv:") {
		// type names without the package path: the reference package declares its own FFT, TestResult, ...
		return e.opaqueFn(normType(t.Op), t.Ty, vs)
	}
	e.Errs = append(e.Errs, "eval: unsupported op "+t.Op)
	return e.opaqueFn(t.Op, t.Ty, vs)
}

func (e *Env) lenOfRef(t *Term, x Val) Val {
	id := "len:" + valKey(x)
	if t.K == KSym {
		id = "len:" + e.canonOf(t.Sym)
		if al, ok := e.LenAlias[id]; ok && !e.NoPre {
			return e.Eval(al)
		}
	}
	d, ok := e.Dom[id]
	if !ok {
		d = Domain{Lo: 200, Hi: 4000}
		e.Dom[id] = d
	}
	v := e.randFor(id, TInt)
	return v
}

func (e *Env) evalCall(t *Term) Val {
	name := t.Op[5:]
	if al, ok := e.FnAlias[name]; ok {
		name = al
	}
	var vs []Val
	for i := range t.Args {
		vs = append(vs, e.Eval(t.Args[i]))
	}
	f := func(i int) float64 { return toF(vs[i]) }
	F := func(x float64) Val { return Val{K: TFloat, F: x} }
	switch name {
	case "math.Sqrt":
		return F(math.Sqrt(f(0)))
	case "math.Abs":
		return F(math.Abs(f(0)))
	case "math.Log":
		return F(math.Log(f(0)))
	case "math.Log2":
		return F(math.Log2(f(0)))
	case "math.Pow":
		return F(math.Pow(f(0), f(1)))
	case "math.Ceil":
		e.recAtom("rnd:ceil", f(0), false)
		return F(math.Ceil(f(0)))
	case "math.Floor":
		e.recAtom("rnd:floor", f(0), false)
		return F(math.Floor(f(0)))
	case "math.Trunc":
		e.recAtom("rnd:trunc", f(0), false)
		return F(math.Trunc(f(0)))
	case "math.Round":
		e.recAtom("rnd:round", f(0), false)
		return F(math.Round(f(0)))
	case "math.Min":
		return F(math.Min(f(0), f(1)))
	case "math.Max":
		return F(math.Max(f(0), f(1)))
	case "math.Cos":
		return F(math.Cos(f(0)))
	case "math.Sin":
		return F(math.Sin(f(0)))
	case "math.Sincos":
		s, c := math.Sincos(f(0))
		return Val{K: TTuple, T: []Val{F(s), F(c)}}
	case "strings.HasSuffix":
		if len(vs) == 2 && vs[0].K == TString && vs[1].K == TString {
			return Val{K: TBool, B: strings.HasSuffix(vs[0].S, vs[1].S)}
		}
	case "strings.HasPrefix":
		if len(vs) == 2 && vs[0].K == TString && vs[1].K == TString {
			return Val{K: TBool, B: strings.HasPrefix(vs[0].S, vs[1].S)}
		}
	case "fmt.Errorf", "errors.New":
		return Val{K: TRef, R: 0xE44}
	case "math.Erfc", "math.Erf", "math.Exp", "math.Gamma":
		return F(surrogate(name, f(0)))
	case "math.Lgamma":
		return Val{K: TTuple, T: []Val{F(surrogate(name, f(0))), {K: TInt, I: 1}}}
	case "math/cmplx.Abs":
		return F(cmplx.Abs(vs[0].C))
	case "math.Hypot": // cmplx.Abs(z) is math.Hypot(real(z), imag(z)) by definition
		return F(math.Hypot(f(0), f(1)))
	case "math.Exp2":
		return F(math.Exp2(f(0)))
	case "math.Log10":
		return F(math.Log10(f(0)))
	case "math/bits.OnesCount8":
		return Val{K: TInt, I: int64(bits.OnesCount8(uint8(vs[0].I)))}
	case "builtin.min":
		if vs[0].K == TInt {
			m := vs[0].I
			for _, v := range vs[1:] {
				if v.I < m {
					m = v.I
				}
			}
			return Val{K: TInt, I: m}
		}
		return F(math.Min(f(0), f(1)))
	case "builtin.max":
		if vs[0].K == TInt {
			m := vs[0].I
			for _, v := range vs[1:] {
				if v.I > m {
					m = v.I
				}
			}
			return Val{K: TInt, I: m}
		}
		return F(math.Max(f(0), f(1)))
	}
	return e.opaqueFn("call:"+name, t.Ty, vs)
}

// ---- comparison ----

var exactFloat = false

func closeF(a, b float64) bool {
	if a == b {
		return true
	}
	if exactFloat {
		return math.IsNaN(a) && math.IsNaN(b)
	}
	if math.IsNaN(a) && math.IsNaN(b) {
		return true
	}
	if math.IsInf(a, 0) || math.IsInf(b, 0) {
		return a == b
	}
	d := math.Abs(a - b)
	m := math.Max(math.Abs(a), math.Abs(b))
	return d <= 1e-9*m || d <= 1e-12
}

func valsClose(a, b Val) bool {
	if a.K != b.K {
		// int vs float constants
		if (a.K == TInt || a.K == TFloat) && (b.K == TInt || b.K == TFloat) {
			return closeF(toF(a), toF(b))
		}
		return false
	}
	switch a.K {
	case TInt:
		return a.I == b.I
	case TFloat:
		return closeF(a.F, b.F)
	case TBool:
		return a.B == b.B
	case TComplex:
		return closeF(real(a.C), real(b.C)) && closeF(imag(a.C), imag(b.C))
	case TString:
		return a.S == b.S
	case TTuple:
		if len(a.T) != len(b.T) {
			return false
		}
		if a.T == nil {
			return a.R == b.R
		}
		for i := range a.T {
			if !valsClose(a.T[i], b.T[i]) {
				return false
			}
		}
		return true
	}
	return a.R == b.R
}

func atomsEqual(a, b []atomRec) (bool, string) {
	norm := func(x []atomRec) []atomRec {
		// dedupe
		var out []atomRec
		for _, r := range x {
			dup := false
			for _, o := range out {
				if o.Kind == r.Kind && o.Strict == r.Strict && closeF(o.Key, r.Key) {
					dup = true
				}
			}
			if !dup {
				out = append(out, r)
			}
		}
		sort.Slice(out, func(i, j int) bool {
			if out[i].Kind != out[j].Kind {
				return out[i].Kind < out[j].Kind
			}
			return out[i].Key < out[j].Key
		})
		return out
	}
	x, y := norm(a), norm(b)
	used := make([]bool, len(y))
	for _, r := range x {
		found := false
		for j, o := range y {
			if !used[j] && o.Kind == r.Kind && o.Strict == r.Strict && closeF(o.Key, r.Key) {
				used[j] = true
				found = true
				break
			}
		}
		if !found {
			return false, fmt.Sprintf("comparison with boundary %.12g (strict=%v, kind %s) has no counterpart", r.Key, r.Strict, r.Kind)
		}
	}
	for j, o := range y {
		if !used[j] {
			return false, fmt.Sprintf("comparison with boundary %.12g (strict=%v, kind %s) has no counterpart", o.Key, o.Strict, o.Kind)
		}
	}
	return true, ""
}

package main

// Behaviour-preserving normalisations applied to BOTH summaries before lock-step matching, so that
// spelling differences a maintainer would call a no-op do not surface as differences:
//   - two adjacent stores to the same location under mutually exclusive guards become one store of the
//     selected value (if b {x=1} else {x=0}  ==  x = ite(b,1,0));
//   - stores of the zero value into memory obtained from make/new in the same function and not written
//     since are dropped, and loops consisting only of such stores are dropped with them (make already
//     zeroes its result);
//   - tiny read-only search loops with a constant bound are unrolled (unroll.go);
//   - a local that is initialised once with a by-value parameter and only read afterwards (the spilled copy of a
//     value receiver that a closure captures or a method reads) is replaced by the parameter;
//   - objects allocated in the function that are only ever stored into (never read, passed on, captured or
//     returned) are dropped with their stores (spilled copies of value receivers left over by inlining);
//   - everything that follows a top-level panic under condition c is guarded by not-c as well (a panic inside an
//     inlined helper does not by itself strengthen the guards of the caller's continuation);
//   - inside the values an event uses, selections already decided by the event's own path condition are resolved
//     (a helper's `if bad { return 0, false }; return v, true` leaves ite(bad, 0, v) behind at a use guarded by ok);
//   - a chain of read-modify-write updates of different elements of one object under mutually exclusive guards
//     (if c0 { v[0]++ } else if c1 { v[1]++ } ...) becomes one update of the selected element (v[k]++ with k the
//     selected index), which is also what a helper returning the index produces;
//   - adjacent counted loops over the same range that touch disjoint objects allocated in the function are fused
//     (copy(T, C) followed by a loop clearing P  ==  one loop doing both);
//   - allocations (which have no effect but to name a fresh object) move to the earliest point of their region
//     at which their length and guard are defined, so that declaration order does not matter.

import (
	"math/big"
	"go/constant"
	"go/types"
	"strings"

	"golang.org/x/tools/go/ssa"
)

func normalizeSummary(S *Store, sum *Summary) {
	unrollSmallLoops(S, sum)
	markMonotoneCounters(S, sum)
	closeWrapCounters(S, sum)
	forwardParamCopies(S, sum)
	dropDeadObjects(S, sum)
	dropZeroInit(S, sum)
	fuseAdjacentLoops(S, sum.Top)
	mergeExclusiveStores(S, sum.Top)
	mergeExclusiveUpdates(S, sum, sum.Top)
	hoistAllocs(sum.Top)
	assumeNoPanic(S, sum.Top)
	restrictByGuard(S, sum.Top)
	restrictLoopBodies(S, sum.Top)
	dropDeadCarried(S, sum)
}

// restrictLoopBodies resolves decided selections inside loops: an event in a loop runs under the entry conditions of
// the loops around it as well as under its own (iteration-relative) condition; loop conditions, exits and updates
// run under the entry conditions.
func restrictLoopBodies(S *Store, r *Region) { restrictLoopsCtx(S, r, S.True) }

func restrictLoopsCtx(S *Store, r *Region, ctx *Term) {
	for _, it := range r.Items {
		l, ok := it.(*LoopS)
		if !ok {
			continue
		}
		if l.Guard != nil {
			l.Guard = S.RestrictDeep(l.Guard, ctx)
		}
		in := ctx
		if l.Guard != nil {
			in = S.Canon(S.And(ctx, l.Guard))
		}
		l.Cont = S.RestrictDeep(l.Cont, in)
		l.Trip = S.RestrictDeep(l.Trip, in)
		l.Bound = S.RestrictDeep(l.Bound, in)
		for _, x := range l.Exits {
			x.Guard = S.RestrictDeep(x.Guard, in)
		}
		for _, c := range l.Carried {
			c.Next = S.RestrictDeep(c.Next, in)
			// the initial value matters only when the loop is entered
			c.Init = S.RestrictDeep(c.Init, in)
		}
		for _, bi := range l.Body.Items {
			e, isEv := bi.(*Event)
			if !isEv || e.Dead {
				continue
			}
			g := in
			if e.Guard != nil {
				e.Guard = S.RestrictDeep(e.Guard, in)
				g = S.Canon(S.And(in, e.Guard))
			}
			e.Val = S.RestrictDeep(e.Val, g)
			e.Root = S.RestrictDeep(e.Root, g)
			rebaseSliceRoot(S, e)
			for i := range e.Args {
				e.Args[i] = S.RestrictDeep(e.Args[i], g)
			}
			for i := range e.Rets {
				e.Rets[i] = S.RestrictDeep(e.Rets[i], g)
			}
			for i := range e.Path {
				e.Path[i] = S.RestrictDeep(e.Path[i], g)
			}
		}
		restrictLoopsCtx(S, l.Body, in)
	}
}

func mergeExclusiveStores(S *Store, r *Region) {
	var out []interface{}
	for _, it := range r.Items {
		if l, ok := it.(*LoopS); ok {
			mergeExclusiveStores(S, l.Body)
			out = append(out, l)
			continue
		}
		e := it.(*Event)
		if e.Dead {
			continue
		}
		if e.Kind == "store" && len(out) > 0 {
			if p, ok := out[len(out)-1].(*Event); ok && p.Kind == "store" && p.Root == e.Root && samePath(p.Path, e.Path) && p.Val != nil && e.Val != nil && p.Val.Ty == e.Val.Ty && S.Exclusive(p.Guard, e.Guard) {
				m := *p
				m.Val = S.Mux([]muxCase{{p.Guard, p.Val}, {e.Guard, e.Val}}, p.Val.Ty)
				m.Guard = S.Canon(S.Or(p.Guard, e.Guard))
				out[len(out)-1] = &m
				continue
			}
		}
		out = append(out, e)
	}
	r.Items = out
}

func isZeroConst(t *Term) bool {
	if t == nil || t.K != KConst || t.C == nil {
		return false
	}
	switch t.C.Kind() {
	case constant.Int, constant.Float:
		return constant.Sign(t.C) == 0
	case constant.Bool:
		return !constant.BoolVal(t.C)
	case constant.Complex:
		return constant.Sign(constant.Real(t.C)) == 0 && constant.Sign(constant.Imag(t.C)) == 0
	}
	return false
}

// dropZeroInit works on the top-level region only (memory that is fresh at function level).
func dropZeroInit(S *Store, sum *Summary) {
	fresh := map[*Symbol]bool{}
	rootSym := func(t *Term) *Symbol {
		if t != nil && t.K == KSym {
			return t.Sym
		}
		return nil
	}
	zeroStore := func(e *Event) bool {
		return e.Kind == "store" && fresh[rootSym(e.Root)] && isZeroConst(e.Val)
	}
	// touch: anything else that may write the object, or let it escape to something that may
	touch := func(e *Event) {
		if e.Kind == "store" {
			delete(fresh, rootSym(e.Root))
		}
		mention := func(t *Term) {
			if t == nil {
				return
			}
			Walk(t, map[*Term]bool{}, func(x *Term) {
				if x.K == KSym {
					delete(fresh, x.Sym)
				}
			})
		}
		switch e.Kind {
		case "load", "alloc", "return", "panic":
			return
		}
		if e.Kind != "store" {
			mention(e.Root)
		}
		mention(e.Val)
		mention(e.Recv)
		mention(e.FnTerm)
		for _, a := range e.Args {
			mention(a)
		}
		if e.Closure != nil {
			for _, a := range e.Closure.Free {
				mention(a)
			}
			for _, a := range e.Closure.FreeVals {
				mention(a)
			}
		}
	}
	var out []interface{}
	for _, it := range sum.Top.Items {
		switch x := it.(type) {
		case *Event:
			if x.Dead {
				continue
			}
			if x.Kind == "alloc" && x.Res != nil {
				fresh[x.Res] = true
			} else if zeroStore(x) {
				continue
			} else {
				touch(x)
			}
			out = append(out, x)
		case *LoopS:
			only := len(nonAffine(x)) == 0 && len(x.Exits) == 1 && x.Exits[0].AtHead && x.Trip != nil
			n := 0
			x.Body.Events(func(e *Event, _ []*LoopS) {
				n++
				if !zeroStore(e) {
					only = false
				}
			})
			x.Body.AllLoops(func(l *LoopS) { only = false })
			if only && n > 0 {
				continue
			}
			x.Body.Events(func(e *Event, _ []*LoopS) { touch(e) })
			out = append(out, x)
		}
	}
	sum.Top.Items = out
}

func definedBy(sy *Symbol, it interface{}) bool {
	switch y := it.(type) {
	case *Event:
		return sy.Ev == y
	case *LoopS:
		if sy.Loop != nil && sy.Loop.inside(y) {
			return true
		}
		if sy.Ev != nil && sy.Ev.Loop != nil && sy.Ev.Loop.inside(y) {
			return true
		}
		// values that leave the loop: final iteration count, final accumulators, exit flags, results of inner events
		if sy.Kind == SOut || sy.Kind == SIterEnd || sy.Kind == SExit {
			if sy == y.IterEnd {
				return true
			}
			for _, ex := range y.Exits {
				if ex.Sym == sy {
					return true
				}
			}
			for _, c := range y.Carried {
				if c.Fin == sy {
					return true
				}
			}
			for _, v := range y.final {
				if v != nil && DependsOn(v, func(s *Symbol) bool { return s == sy }) {
					return true
				}
			}
			inner := false
			y.Body.AllLoops(func(l *LoopS) {
				if definedBy(sy, l) {
					inner = true
				}
			})
			return inner
		}
	}
	return false
}

func hoistAllocs(r *Region) {
	items := r.Items
	for idx := 0; idx < len(items); idx++ {
		if l, ok := items[idx].(*LoopS); ok {
			hoistAllocs(l.Body)
			continue
		}
		e := items[idx].(*Event)
		if e.Kind != "alloc" || e.Dead {
			continue
		}
		pos := idx
		for pos > 0 {
			prev := items[pos-1]
			if pe, ok := prev.(*Event); ok && pe.Kind == "alloc" {
				break // keep the relative order of allocations
			}
			dep := false
			// only the length matters: under which condition the object comes into being is immaterial
			for _, t := range []*Term{e.Len} {
				if t != nil && DependsOn(t, func(s *Symbol) bool { return definedBy(s, prev) }) {
					dep = true
				}
			}
			if dep {
				break
			}
			items[pos-1], items[pos] = items[pos], items[pos-1]
			pos--
		}
	}
}

// dropDeadObjects removes allocations whose object is mentioned nowhere but as the target of stores.
func dropDeadObjects(S *Store, sum *Summary) {
	allocs := map[*Symbol]*Event{}
	sum.Top.Events(func(e *Event, _ []*LoopS) {
		if e.Kind == "alloc" && e.Res != nil {
			allocs[e.Res] = e
		}
	})
	if len(allocs) == 0 {
		return
	}
	live := map[*Symbol]bool{}
	mark := func(t *Term) {
		if t == nil {
			return
		}
		Walk(t, map[*Term]bool{}, func(x *Term) {
			if x.K == KSym && allocs[x.Sym] != nil {
				live[x.Sym] = true
			}
		})
	}
	var markRegion func(r *Region)
	markRegion = func(r *Region) {
		for _, it := range r.Items {
			switch x := it.(type) {
			case *Event:
				if x.Dead {
					continue
				}
				mark(x.Guard)
				if !(x.Kind == "store" && x.Root != nil && x.Root.K == KSym) {
					mark(x.Root)
				}
				for _, t := range x.Path {
					mark(t)
				}
				mark(x.Val)
				mark(x.Recv)
				mark(x.FnTerm)
				mark(x.Len)
				for _, t := range x.Args {
					mark(t)
				}
				for _, t := range x.Rets {
					mark(t)
				}
				if x.Closure != nil {
					for _, t := range x.Closure.Free {
						mark(t)
					}
					for _, t := range x.Closure.FreeVals {
						mark(t)
					}
				}
			case *LoopS:
				mark(x.Guard)
				mark(x.Cont)
				mark(x.Trip)
				mark(x.Bound)
				for _, c := range x.Carried {
					mark(c.Init)
					mark(c.Next)
					mark(c.Step)
				}
				for _, ex := range x.Exits {
					mark(ex.Guard)
				}
				for _, v := range x.final {
					mark(v)
				}
				markRegion(x.Body)
			}
		}
	}
	markRegion(sum.Top)
	var sweep func(r *Region)
	sweep = func(r *Region) {
		var out []interface{}
		for _, it := range r.Items {
			switch x := it.(type) {
			case *Event:
				if x.Kind == "alloc" && x.Res != nil && !live[x.Res] {
					continue
				}
				if x.Kind == "store" && x.Root != nil && x.Root.K == KSym && allocs[x.Root.Sym] != nil && !live[x.Root.Sym] {
					continue
				}
				out = append(out, x)
			case *LoopS:
				sweep(x.Body)
				out = append(out, x)
			}
		}
		r.Items = out
	}
	sweep(sum.Top)
}

// assumeNoPanic conjoins, to the guard of every top-level item, the negation of the guards of the top-level
// panics that precede it.
func assumeNoPanic(S *Store, r *Region) {
	alive := S.True
	for _, it := range r.Items {
		switch x := it.(type) {
		case *Event:
			if x.Dead {
				continue
			}
			if alive != S.True && x.Guard != nil {
				x.Guard = S.Canon(S.And(x.Guard, alive))
			}
			if x.Kind == "panic" && x.Guard != nil {
				alive = S.Canon(S.And(alive, S.Not(x.Guard)))
			}
		case *LoopS:
			if alive != S.True && x.Guard != nil {
				x.Guard = S.Canon(S.And(x.Guard, alive))
			}
		}
	}
}

// restrictByGuard resolves selections decided by each top-level event's own guard in the values it uses.
func restrictByGuard(S *Store, r *Region) {
	for _, it := range r.Items {
		e, ok := it.(*Event)
		if !ok || e.Dead || e.Guard == nil || e.Guard == S.True {
			continue
		}
		e.Val = S.RestrictDeep(e.Val, e.Guard)
		e.Root = S.RestrictDeep(e.Root, e.Guard)
		rebaseSliceRoot(S, e)
		for i := range e.Args {
			e.Args[i] = S.RestrictDeep(e.Args[i], e.Guard)
		}
		for i := range e.Rets {
			e.Rets[i] = S.RestrictDeep(e.Rets[i], e.Guard)
		}
		for i := range e.Path {
			e.Path[i] = S.RestrictDeep(e.Path[i], e.Guard)
		}
	}
}

// mergeExclusiveUpdates merges adjacent (load x = R[p]; store R[p] := f(x)) pairs on one object whose guards are
// mutually exclusive into a single pair on the selected element.
func mergeExclusiveUpdates(S *Store, sum *Summary, r *Region) {
	// uses of load results outside their own store
	uses := map[*Symbol]int{}
	count := func(t *Term) {
		if t == nil {
			return
		}
		Walk(t, map[*Term]bool{}, func(x *Term) {
			if x.K == KSym && x.Sym.Kind == SRes {
				uses[x.Sym]++
			}
		})
	}
	sum.Top.Events(func(e *Event, _ []*LoopS) {
		count(e.Guard)
		count(e.Val)
		for _, t := range e.Path {
			count(t)
		}
		for _, t := range e.Args {
			count(t)
		}
		for _, t := range e.Rets {
			count(t)
		}
	})
	sum.Top.AllLoops(func(l *LoopS) {
		for _, c := range l.Carried {
			count(c.Init)
			count(c.Next)
		}
		for _, x := range l.Exits {
			count(x.Guard)
		}
		count(l.Guard)
		count(l.Cont)
	})
	var walk func(r *Region)
	walk = func(r *Region) {
		var out []interface{}
		lastLoad, lastStore := -1, -1 // positions in out of the unit that may absorb the next one
		for idx := 0; idx < len(r.Items); idx++ {
			it := r.Items[idx]
			if l, ok := it.(*LoopS); ok {
				walk(l.Body)
				out = append(out, l)
				lastLoad, lastStore = -1, -1
				continue
			}
			e := it.(*Event)
			if e.Dead {
				continue
			}
			// an update unit starts here?
			var st *Event
			if e.Kind == "load" && e.Res != nil && idx+1 < len(r.Items) {
				if s2, ok := r.Items[idx+1].(*Event); ok && !s2.Dead && s2.Kind == "store" && s2.Root == e.Root && samePath(s2.Path, e.Path) && s2.Guard == e.Guard &&
					s2.Val != nil && DependsOn(s2.Val, func(sy *Symbol) bool { return sy == e.Res }) {
					nUse := 0
					Walk(s2.Val, map[*Term]bool{}, func(x *Term) {
						if x.K == KSym && x.Sym == e.Res {
							nUse++
						}
					})
					if uses[e.Res] == nUse {
						st = s2
					}
				}
			}
			if st == nil {
				out = append(out, e)
				lastLoad, lastStore = -1, -1
				continue
			}
			idx++ // consume the store as well
			if lastLoad >= 0 {
				pl, ps := out[lastLoad].(*Event), out[lastStore].(*Event)
				if pl.Root == e.Root && len(pl.Path) == len(e.Path) && pl.Res.Ty == e.Res.Ty && S.Exclusive(pl.Guard, e.Guard) {
					nl, ns := *pl, *ps
					nl.Path = make([]*Term, len(e.Path))
					for i := range e.Path {
						nl.Path[i] = S.Mux([]muxCase{{pl.Guard, pl.Path[i]}, {e.Guard, e.Path[i]}}, e.Path[i].Ty)
					}
					v2 := S.Subst(st.Val, map[*Symbol]*Term{e.Res: S.SymTerm(pl.Res)}, map[*Term]*Term{})
					ns.Val = S.Mux([]muxCase{{pl.Guard, ps.Val}, {e.Guard, v2}}, ps.Val.Ty)
					g := S.Canon(S.Or(pl.Guard, e.Guard))
					nl.Guard, ns.Guard = g, g
					ns.Path = nl.Path
					nl.Res.Ev = &nl
					out[lastLoad], out[lastStore] = &nl, &ns
					continue
				}
			}
			out = append(out, e, st)
			lastLoad, lastStore = len(out)-2, len(out)-1
		}
		r.Items = out
	}
	walk(r)
}

// forwardParamCopies: obj := param (whole value, once), obj only read afterwards  ==>  read the parameter.
func forwardParamCopies(S *Store, sum *Summary) {
	allocs := map[*Symbol]*Event{}
	sum.Top.Events(func(e *Event, _ []*LoopS) {
		if e.Kind == "alloc" && e.Res != nil && e.Loop == nil {
			allocs[e.Res] = e
		}
	})
	if len(allocs) == 0 {
		return
	}
	inits := map[*Symbol]*Event{}
	bad := map[*Symbol]bool{}
	sum.Top.Events(func(e *Event, loops []*LoopS) {
		if e.Kind == "store" && e.Root != nil && e.Root.K == KSym && allocs[e.Root.Sym] != nil {
			sy := e.Root.Sym
			if len(e.Path) == 0 && len(loops) == 0 && inits[sy] == nil && e.Val != nil && e.Val.K == KSym && e.Val.Sym.Kind == SParam {
				inits[sy] = e
			} else {
				bad[sy] = true
			}
		}
		// handing the object itself (its address) to anything else may let it be written
		chk := func(t *Term) {
			if t == nil {
				return
			}
			if t.K == KSym && allocs[t.Sym] != nil {
				bad[t.Sym] = true
			}
		}
		if e.Kind != "load" && e.Kind != "store" && e.Kind != "alloc" {
			chk(e.Recv)
			for _, a := range e.Args {
				chk(a)
			}
			for _, a := range e.Rets {
				chk(a)
			}
			if e.Closure != nil {
				for _, a := range e.Closure.Free {
					chk(a)
				}
			}
		}
		if e.Kind == "store" {
			chk(e.Val)
		}
	})
	sub := map[*Symbol]*Term{}
	for sy, st := range inits {
		if !bad[sy] {
			sub[sy] = st.Val
			st.Dead = true
			allocs[sy].Dead = true
		}
	}
	if len(sub) == 0 {
		return
	}
	memo := map[*Term]*Term{}
	sum.Top.MapTerms(func(t *Term) *Term { return S.Subst(t, sub, memo) })
	for _, r := range sum.Rets {
		for i := range r.Rets {
			r.Rets[i] = S.Subst(r.Rets[i], sub, memo)
		}
	}
	// reads of scalar fields of the by-value parameter are pure functions of it
	sub2 := map[*Symbol]*Term{}
	sum.Top.Events(func(e *Event, _ []*LoopS) {
		if e.Kind != "load" || e.Res == nil || e.Root == nil || e.Root.K != KSym || e.Root.Sym.Kind != SParam || len(e.Path) != 1 {
			return
		}
		p, ok := e.Root.Sym.Obj.(*ssa.Parameter)
		if !ok {
			return
		}
		if _, isStruct := p.Type().Underlying().(*types.Struct); !isStruct {
			return
		}
		if f, isStr := e.Path[0].StrVal(); !isStr || !strings.HasPrefix(f, ".") {
			return
		}
		sub2[e.Res] = S.mkOp("ld", e.Res.Ty, e.Root, e.Path[0])
		e.Dead = true
	})
	if len(sub2) > 0 {
		memo2 := map[*Term]*Term{}
		sum.Top.MapTerms(func(t *Term) *Term { return S.Subst(t, sub2, memo2) })
		for _, r := range sum.Rets {
			for i := range r.Rets {
				r.Rets[i] = S.Subst(r.Rets[i], sub2, memo2)
			}
		}
	}
}

// dropDeadCarried removes loop-carried variables whose value at the start of an iteration is never used: the
// variable appears only in its own update (x' = ite(c, v, x)), every real use having been resolved to the value
// assigned earlier in the same iteration, and its final value is not used after the loop. (A variable declared
// outside the loop but always assigned before it is read: `pivotrow` vs a per-iteration `pivotrow := -1`.)
func dropDeadCarried(S *Store, sum *Summary) {
	for changed := true; changed; {
		changed = false
		var loops []*LoopS
		sum.Top.AllLoops(func(l *LoopS) { loops = append(loops, l) })
		for _, l := range loops {
			for ci, c := range l.Carried {
				if c.Affine || c.Sym == nil {
					continue
				}
				used := false
				mention := func(t *Term) {
					if t == nil || used {
						return
					}
					if DependsOn(t, func(s *Symbol) bool { return s == c.Sym || (c.Fin != nil && s == c.Fin) }) {
						used = true
					}
				}
				// everything in the summary except this variable's own update
				var scan func(r *Region)
				scan = func(r *Region) {
					for _, it := range r.Items {
						switch x := it.(type) {
						case *Event:
							if x.Dead {
								continue
							}
							mention(x.Guard)
							mention(x.Root)
							mention(x.Val)
							mention(x.Recv)
							mention(x.FnTerm)
							mention(x.Len)
							for _, t := range x.Path {
								mention(t)
							}
							for _, t := range x.Args {
								mention(t)
							}
							for _, t := range x.Rets {
								mention(t)
							}
						case *LoopS:
							mention(x.Guard)
							mention(x.Cont)
							mention(x.Trip)
							mention(x.Bound)
							for _, ex := range x.Exits {
								mention(ex.Guard)
							}
							for _, oc := range x.Carried {
								mention(oc.Init)
								if oc != c {
									mention(oc.Next)
								}
							}
							scan(x.Body)
						}
					}
				}
				scan(sum.Top)
				for _, r := range sum.Rets {
					for _, t := range r.Rets {
						mention(t)
					}
				}
				if used {
					continue
				}
				// its own update must not smuggle the old value into anything but itself: fine by construction
				l.Carried = append(append([]*Carried{}, l.Carried[:ci]...), l.Carried[ci+1:]...)
				changed = true
				break
			}
			if changed {
				break
			}
		}
	}
}

// markMonotoneCounters: an integer loop-carried variable that starts non-negative and is only ever left unchanged or
// increased by a non-negative amount is non-negative throughout (and so is its final value). The fact is attached
// to the symbols and every term of the summary is rebuilt, so that comparisons such as row+k+1 <= 0 fold away.
func markMonotoneCounters(S *Store, sum *Summary) {
	marked := false
	var monotone func(next *Term, sym *Term) bool
	monotone = func(next, sym *Term) bool {
		if next == sym {
			return true
		}
		if next.Op == "ite" {
			return monotone(next.Args[1], sym) && monotone(next.Args[2], sym)
		}
		if next.Op == "imax" {
			return (next.Args[0] == sym && true) || (next.Args[1] == sym && true)
		}
		d := S.Sub(next, sym)
		return !DependsOn(d, func(s *Symbol) bool { return s == sym.Sym }) && nonNeg(d)
	}
	// positive: starts >= 1 and every step keeps it >= 1 (unchanged, increased, multiplied by a positive constant:
	// the doubling butterfly length of an FFT)
	var keepsPos func(next, sym *Term) bool
	keepsPos = func(next, sym *Term) bool {
		if next == sym {
			return true
		}
		if next.Op == "ite" {
			return keepsPos(next.Args[1], sym) && keepsPos(next.Args[2], sym)
		}
		if as, cs, off := linParts(next); len(as) == 1 && as[0] == sym && cs[0].Sign() > 0 && off.Sign() >= 0 {
			return true
		}
		if next.Op == "shl" && next.Args[0] == sym && nonNeg(next.Args[1]) {
			return true
		}
		d := S.Sub(next, sym)
		return !DependsOn(d, func(s *Symbol) bool { return s == sym.Sym }) && nonNeg(d)
	}
	mark := func(c *Carried, attr string) {
		for _, sy := range []*Symbol{c.Sym, c.Fin} {
			if sy != nil {
				if sy.Attr == nil {
					sy.Attr = map[string]*Term{}
				}
				sy.Attr[attr] = S.True
			}
		}
		marked = true
	}
	for round := 0; round < 3; round++ {
		sum.Top.AllLoops(func(l *LoopS) {
			for _, c := range l.Carried {
				if c.Ty != TInt || c.Sym == nil || c.Next == nil || c.Init == nil {
					continue
				}
				if (c.Sym.Attr == nil || c.Sym.Attr["nonneg"] == nil) && nonNeg(c.Init) && monotone(c.Next, S.SymTerm(c.Sym)) {
					mark(c, "nonneg")
				}
				if (c.Sym.Attr == nil || c.Sym.Attr["pos"] == nil) && isPos(c.Init) && keepsPos(c.Next, S.SymTerm(c.Sym)) {
					mark(c, "pos")
					if c.Sym.Attr["nonneg"] == nil {
						mark(c, "nonneg")
					}
				}
			}
		})
	}
	if !marked {
		late := false
		sum.Top.AllLoops(func(l *LoopS) {
			if l.Trip == nil && l.HeadExact {
				late = true
			}
		})
		if !late {
			return
		}
	}
	memo := map[*Term]*Term{}
	f := func(t *Term) *Term { return S.Renorm(t, memo) }
	sum.Top.MapTerms(f)
	for _, r := range sum.Rets {
		for i := range r.Rets {
			r.Rets[i] = f(r.Rets[i])
		}
		if r.Guard != nil {
			r.Guard = f(r.Guard)
		}
	}
	deriveLateTrips(S, sum)
}

// deriveLateTrips: a loop whose continuation condition became i < K only through the facts above (a symbolic stride
// known to be positive divided out: `for o := 0; o < s*step; o += step`) gets its trip count max(K, 0) now; the
// iteration count symbol that stood for it is replaced everywhere.
func deriveLateTrips(S *Store, sum *Summary) {
	sub := map[*Symbol]*Term{}
	sum.Top.AllLoops(func(l *LoopS) {
		if l.Trip != nil || !l.HeadExact || l.Cont == nil || l.Iter == nil {
			return
		}
		if l.Cont.Op != "le0" {
			return
		}
		iter := S.SymTerm(l.Iter)
		atoms, coefs, off := linParts(l.Cont.Args[0])
		rest := S.linMake(nil, nil, off)
		var s *big.Int
		for i, a := range atoms {
			if a == iter {
				s = coefs[i]
			} else {
				rest = S.Add(rest, S.MulC(a, coefs[i]))
			}
		}
		inLoop := func(sy *Symbol) bool {
			return (sy.Loop != nil && sy.Loop.inside(l)) || (sy.Ev != nil && sy.Ev.Loop != nil && sy.Ev.Loop.inside(l))
		}
		if s == nil || s.Cmp(big.NewInt(1)) != 0 || DependsOn(rest, inLoop) {
			return
		}
		n := S.Sub(S.Int(1), rest)
		var tr *Term
		if v, ok := n.IntVal(); ok {
			if v < 0 {
				v = 0
			}
			tr = S.Int(v)
		} else {
			tr = S.Op("max0", TInt, n)
		}
		l.Trip, l.Bound = tr, tr
		if l.final != nil {
			l.final[l.Iter] = tr
		}
		if l.IterEnd != nil {
			sub[l.IterEnd] = tr
		}
	})
	if len(sub) == 0 {
		return
	}
	memo := map[*Term]*Term{}
	g := func(t *Term) *Term { return S.Subst(t, sub, memo) }
	sum.Top.MapTerms(g)
	for _, r := range sum.Rets {
		for i := range r.Rets {
			r.Rets[i] = g(r.Rets[i])
		}
		if r.Guard != nil {
			r.Guard = g(r.Guard)
		}
	}
}

// rebaseSliceRoot: an access whose object is written as a window slice(r, off, len) of r is an access of r at
// off + index.
func rebaseSliceRoot(S *Store, e *Event) {
	if (e.Kind != "load" && e.Kind != "store") || e.Root == nil || e.Root.Op != "slice" || len(e.Path) == 0 || e.Path[0].Ty != TInt {
		return
	}
	off := e.Root.Args[1]
	np := append([]*Term{}, e.Path...)
	np[0] = S.Add(off, e.Path[0])
	e.Path = np
	e.Root = e.Root.Args[0]
}

// fuseAdjacentLoops fuses two adjacent loops of one region when both are plain counted loops (one head exit, no
// loop-carried state) with the same entry condition and trip count, their bodies contain only loads and stores,
// and every object one of them writes is an object allocated in this function that the other neither reads nor
// writes (so no iteration of one can observe the other).
func fuseAdjacentLoops(S *Store, r *Region) {
	for _, it := range r.Items {
		if l, ok := it.(*LoopS); ok {
			fuseAdjacentLoops(S, l.Body)
		}
	}
	plain := func(l *LoopS) bool {
		if l.Trip == nil || len(l.Exits) != 1 || !l.Exits[0].AtHead || len(nonAffine(l)) > 0 {
			return false
		}
		for _, it := range l.Body.Items {
			e, ok := it.(*Event)
			if !ok {
				return false
			}
			if e.Dead {
				continue
			}
			if e.Kind != "load" && e.Kind != "store" {
				return false
			}
			if e.Root == nil || e.Root.K != KSym {
				return false
			}
		}
		return true
	}
	roots := func(l *LoopS) (rd, wr map[*Symbol]bool) {
		rd, wr = map[*Symbol]bool{}, map[*Symbol]bool{}
		for _, it := range l.Body.Items {
			e := it.(*Event)
			if e.Dead {
				continue
			}
			if e.Kind == "store" {
				wr[e.Root.Sym] = true
			} else {
				rd[e.Root.Sym] = true
			}
		}
		return
	}
	fresh := func(sy *Symbol) bool { return sy.Kind == SObj }
	for changed := true; changed; {
		changed = false
		for i := 0; i+1 < len(r.Items); i++ {
			a, ok1 := r.Items[i].(*LoopS)
			b, ok2 := r.Items[i+1].(*LoopS)
			if !ok1 || !ok2 || !plain(a) || !plain(b) || a.Guard != b.Guard {
				continue
			}
			// same trip count once b's counter is renamed to a's
			sub := map[*Symbol]*Term{b.Iter: S.SymTerm(a.Iter)}
			memo := map[*Term]*Term{}
			if S.Subst(b.Trip, sub, memo) != a.Trip {
				continue
			}
			ra, wa := roots(a)
			rb, wb := roots(b)
			okDisj := true
			for sy := range wa {
				if !fresh(sy) || rb[sy] || wb[sy] {
					okDisj = false
				}
			}
			for sy := range wb {
				if !fresh(sy) || ra[sy] || wa[sy] {
					okDisj = false
				}
			}
			if !okDisj {
				continue
			}
			b.Body.MapTerms(func(t *Term) *Term { return S.Subst(t, sub, memo) })
			for _, it := range b.Body.Items {
				if e, ok := it.(*Event); ok {
					e.Loop = a
				}
				a.Body.Items = append(a.Body.Items, it)
			}
			r.Items = append(r.Items[:i+1], r.Items[i+2:]...)
			changed = true
			break
		}
	}
}

// closeWrapCounters: a position advanced by one per iteration and wrapped to 0 on reaching N, whose start lies in [0, N)
// because it is the counter of an enclosing loop that runs below N (the start (_ % N) and 0 cases are closed by the
// extractor already), is (start + k) % N in iteration k. The variable disappears from the loop like any induction
// variable.
func closeWrapCounters(S *Store, sum *Summary) {
	var walk func(r *Region, enclosing []*LoopS)
	walk = func(r *Region, enclosing []*LoopS) {
		for _, it := range r.Items {
			l, ok := it.(*LoopS)
			if !ok {
				continue
			}
			walk(l.Body, append(enclosing, l))
			if l.Iter == nil {
				continue
			}
			iter := S.SymTerm(l.Iter)
			inLoop := func(sy *Symbol) bool {
				return (sy.Loop != nil && sy.Loop.inside(l)) || (sy.Ev != nil && sy.Ev.Loop != nil && sy.Ev.Loop.inside(l))
			}
			sub := map[*Symbol]*Term{}
			for _, c := range l.Carried {
				if c.Affine || c.Ty != TInt || c.Sym == nil || c.Init == nil || c.Next == nil {
					continue
				}
				cf := wrapClosedFormIn(S, c, iter, inLoop, func(init, N *Term) bool {
					// init is the counter of an enclosing loop bounded by N
					if init.K != KSym || init.Sym.Kind != SIter {
						return false
					}
					for _, e := range enclosing {
						if e.Iter == init.Sym && e.Bound != nil && (e.Bound == N || (e.Bound.Op == "max0" && e.Bound.Args[0] == N)) {
							return true
						}
					}
					return false
				})
				if cf != nil {
					c.Affine = true
					c.Step = S.Int(1)
					sub[c.Sym] = cf
				}
			}
			if len(sub) == 0 {
				continue
			}
			memo := map[*Term]*Term{}
			f := func(t *Term) *Term { return S.Subst(t, sub, memo) }
			for _, c := range l.Carried {
				c.Next = f(c.Next)
			}
			if l.Cont != nil {
				l.Cont = f(l.Cont)
			}
			for _, x := range l.Exits {
				x.Guard = f(x.Guard)
			}
			l.Body.MapTerms(f)
			// values after the loop: the counter at the final iteration count
			if l.final != nil {
				fin := map[*Symbol]*Term{}
				for _, c := range l.Carried {
					if cf, ok := sub[c.Sym]; ok && c.Fin != nil {
						end := l.Trip
						if end == nil && l.IterEnd != nil {
							end = S.SymTerm(l.IterEnd)
						}
						if end != nil {
							fin[c.Fin] = S.Subst(cf, map[*Symbol]*Term{l.Iter: end}, map[*Term]*Term{})
						}
					}
				}
				if len(fin) > 0 {
					m2 := map[*Term]*Term{}
					g := func(t *Term) *Term { return S.Subst(t, fin, m2) }
					sum.Top.MapTerms(g)
					for _, r := range sum.Rets {
						for i := range r.Rets {
							r.Rets[i] = g(r.Rets[i])
						}
					}
				}
			}
		}
	}
	walk(sum.Top, nil)
}

package main

// Scalar replacement of parameter objects. A struct allocated by the spawner, whose fields are each assigned once at
// top level and which is then handed (by pointer) to the goroutines it starts, is just a bundle of the values that
// would otherwise be passed as separate arguments. Reads of a field are replaced by the value assigned to it;
// accesses through a field that holds a slice or a pointer become accesses of what that slice or pointer refers to.
// Fields that are never assigned (a sync.Mutex / sync.WaitGroup embedded by value) keep their address
// addr(obj, ".field") as their identity.

import (
	"strings"

	"golang.org/x/tools/go/ssa"
)

type fieldMap map[*Symbol]map[string]*Term

// paramObjectFields collects, from the spawner's summary, the struct objects whose every assigned field is assigned
// exactly once, by a top-level whole-field store.
func paramObjectFields(S *Store, sum *Summary) fieldMap {
	out := fieldMap{}
	bad := map[*Symbol]bool{}
	isStructAlloc := map[*Symbol]bool{}
	sum.Top.Events(func(e *Event, loops []*LoopS) {
		if e.Kind == "alloc" && e.Res != nil && len(loops) == 0 && e.Len == nil && !strings.HasPrefix(e.Type, "[") && !strings.HasPrefix(e.Type, "chan ") && !strings.HasPrefix(e.Type, "map[") {
			isStructAlloc[e.Res] = true
		}
	})
	sum.Top.Events(func(e *Event, loops []*LoopS) {
		if e.Kind != "store" || e.Root == nil || e.Root.K != KSym || !isStructAlloc[e.Root.Sym] || len(e.Path) != 1 {
			return
		}
		f, ok := e.Path[0].StrVal()
		if !ok || !strings.HasPrefix(f, ".") {
			return
		}
		sy := e.Root.Sym
		if len(loops) > 0 {
			bad[sy] = true
			return
		}
		if out[sy] == nil {
			out[sy] = map[string]*Term{}
		}
		if _, dup := out[sy][f]; dup {
			bad[sy] = true
		}
		out[sy][f] = e.Val
	})
	for sy := range bad {
		delete(out, sy)
	}
	return out
}

func applySROA(S *Store, x *Ext, sum *Summary, fm fieldMap) {
	if len(fm) == 0 {
		return
	}
	field := func(root *Term, path []*Term) (*Term, bool) {
		if root == nil || root.K != KSym || fm[root.Sym] == nil || len(path) == 0 {
			return nil, false
		}
		f, ok := path[0].StrVal()
		if !ok {
			return nil, false
		}
		v, has := fm[root.Sym][f]
		return v, has
	}
	// through a field value to the object it refers to
	through := func(v *Term, rest []*Term) (*Term, []*Term) {
		if v.Op == "slice" && len(rest) > 0 && rest[0].Ty == TInt {
			np := append([]*Term{S.Add(v.Args[1], rest[0])}, rest[1:]...)
			return v.Args[0], np
		}
		return v, rest
	}
	sub := map[*Symbol]*Term{}
	sum.Top.Events(func(e *Event, _ []*LoopS) {
		if e.Kind != "load" && e.Kind != "store" {
			return
		}
		v, ok := field(e.Root, e.Path)
		if !ok {
			return
		}
		if len(e.Path) == 1 {
			if e.Kind == "load" && e.Res != nil {
				sub[e.Res] = v
			}
			e.Dead = true // the field read / the one assignment of the field
			return
		}
		e.Root, e.Path = through(v, e.Path[1:])
	})
	memo := map[*Term]*Term{}
	var rw func(t *Term) *Term
	rw = func(t *Term) *Term {
		if t == nil {
			return nil
		}
		if r, ok := memo[t]; ok {
			return r
		}
		var r *Term
		switch t.K {
		case KSym:
			r = t
			if v, ok := sub[t.Sym]; ok {
				r = rw(v)
			}
		case KOp:
			na := make([]*Term, len(t.Args))
			ch := false
			for i, a := range t.Args {
				na[i] = rw(a)
				if na[i] != a {
					ch = true
				}
			}
			r = t
			if ch {
				if t.Op == "lin" {
					acc := S.linMake(nil, nil, t.Off)
					for i, a := range na {
						acc = S.Add(acc, S.MulC(a, t.Coefs[i]))
					}
					r = acc
				} else {
					r = S.rebuild(t, na)
				}
			}
			if (r.Op == "at" || r.Op == "addr") && len(r.Args) >= 2 {
				if v, ok := field(r.Args[0], r.Args[1:]); ok {
					rest := r.Args[2:]
					if len(rest) == 0 {
						if r.Op == "at" {
							r = v
						}
					} else {
						root, np := through(v, rest)
						r = S.mkOp(r.Op, r.Ty, append([]*Term{root}, np...)...)
					}
				}
			}
			if r.Op == "len" && len(r.Args) == 1 && r.Args[0].Op == "slice" {
				r = r.Args[0].Args[2]
			}
		default:
			r = t
		}
		memo[t] = r
		return r
	}
	sum.Top.MapTerms(rw)
	for _, rt := range sum.Rets {
		for i := range rt.Rets {
			rt.Rets[i] = rw(rt.Rets[i])
		}
		if rt.Guard != nil {
			rt.Guard = rw(rt.Guard)
		}
	}
	// calls through a field that holds a function of this module are calls of that function
	sum.Top.Events(func(e *Event, _ []*LoopS) {
		if (e.Kind != "call" && e.Kind != "go") || e.StaticCallee != nil || e.FnTerm == nil || e.FnTerm.K != KSym || e.FnTerm.Sym.Kind != SFunc {
			return
		}
		if f, ok := e.FnTerm.Sym.Obj.(*ssa.Function); ok {
			e.StaticCallee = f
			e.Callee = canonFunc(f)
		}
	})
}

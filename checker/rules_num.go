package main

// Numeric test functions: structural equivalence with the reference formulations in ref/.

type numSpec struct {
	Rule, Key string
	Spec      eqSpec
	What      string
}

func domLen(lo, hi int64) map[string]Domain {
	return map[string]Domain{"len:param:0": {Lo: lo, Hi: hi}}
}

func withParam(d map[string]Domain, idx int, lo, hi int64) map[string]Domain {
	d[fmtParam(idx)] = Domain{Lo: lo, Hi: hi}
	return d
}

func fmtParam(i int) string { return "param:" + string(rune('0'+i)) }

var c01Specs = []numSpec{
	{"R-EQUIV", "MonoBitFrequencyTest", eqSpec{Pkg: pkgRoot, Name: "MonoBitFrequencyTest", RefName: "MonoBitFrequencyTest", Dom: domLen(100, 5000)}, "S=#1-#0 over all n bits; V=S/sqrt(n); erfc pair"},
	{"R-EQUIV", "MonoBitFrequencyTestBytes", eqSpec{Pkg: pkgRoot, Name: "MonoBitFrequencyTestBytes", RefName: "MonoBitFrequencyTestBytes", Dom: domLen(16, 5000)}, "byte form: S += 2*popcount-8 over every byte"},
	{"R-EQUIV", "FrequencyWithinBlockProto", eqSpec{Pkg: pkgRoot, Name: "FrequencyWithinBlockProto", RefName: "FrequencyWithinBlockProto", Dom: withParam(domLen(100, 5000), 1, 2, 90)}, "N=n/m full blocks, bits i*m+j, V=4m*sum(pi-1/2)^2, igamc(N/2,V/2)"},
	{"R-EQUIV", "PokerProto", eqSpec{Pkg: pkgRoot, Name: "PokerProto", RefName: "PokerProto", Dom: withParam(domLen(100, 5000), 1, 2, 9)}, "N=n/m MSB-first patterns, V=2^m/N*sum h^2-N, igamc((2^m-1)/2,V/2)"},
	{"R-EQUIV", "PokerTestBytes", eqSpec{Pkg: pkgRoot, Name: "PokerTestBytes", RefName: "PokerTestBytes", Dom: withParam(domLen(16, 5000), 1, 2, 9), Inline: map[string]bool{}}, "byte fast path for m=4 (both nibbles, high first) and m=8 (every byte); bit path otherwise"},
	{"R-EQUIV", "OverlappingTemplateMatchingProto", eqSpec{Pkg: pkgRoot, Name: "OverlappingTemplateMatchingProto", RefName: "OverlappingTemplateMatchingProto", Dom: withParam(domLen(100, 5000), 1, 2, 8)}, "n cyclic windows (index mod n) for m, m-1, m-2; psi^2 differences; igamc(2^(m-2),.), igamc(2^(m-3),.)"},
	{"R-EQUIV", "ApproximateEntropyProto", eqSpec{Pkg: pkgRoot, Name: "ApproximateEntropyProto", RefName: "ApproximateEntropyProto", Dom: withParam(domLen(100, 5000), 1, 2, 8)}, "cyclic m and m+1 windows; V=2n(ln2-ApEn); igamc(2^(m-1),V/2)"},
}

func runNumSpecs(c *Check, p *Prog, specs []numSpec) {
	for _, s := range specs {
		checkEquiv(c, p, s.Rule, s.Key, s.Spec, s.What)
	}
}

func ruleC01(c *Check, p *Prog) {
	c.Explanation = "equivalence with reference formulations (work in progress)"
	runNumSpecs(c, p, c01Specs)
}

var c02Specs = []numSpec{
	{"R-EQUIV", "RunsTest", eqSpec{Pkg: pkgRoot, Name: "RunsTest", RefName: "RunsTest", Dom: domLen(100, 5000)}, "runs over the n-1 adjacent pairs, ones over all n bits, V=(Vobs-2n pi(1-pi))/(2 sqrt(n) pi(1-pi))"},
	{"R-EQUIV", "RunsDistributionTest", eqSpec{Pkg: pkgRoot, Name: "RunsDistributionTest", RefName: "RunsDistributionTest", Dom: domLen(100, 5000)}, "cut-off k loop, run-length machine with pooling into class k and last-run flush, e_i, chi-square, igamc(k-1,V/2)"},
	{"R-EQUIV", "LongestRunOfOnesInABlockProto", eqSpec{Pkg: pkgRoot, Name: "LongestRunOfOnesInABlockProto", RefName: "LongestRunOfOnesInABlockProto", Dom: domLen(128, 900000)}, "regimes 6272/750000, per-block longest run of the chosen symbol, clamp into K+1 classes, igamc(K/2,V/2)"},
}

func ruleC02(c *Check, p *Prog) {
	c.Explanation = "equivalence with reference formulations (work in progress)"
	runNumSpecs(c, p, c02Specs)
}

var c03Specs = []numSpec{
	{"R-EQUIV", "BinaryDerivativeProto", eqSpec{Pkg: pkgRoot, Name: "BinaryDerivativeProto", RefName: "BinaryDerivativeProto", Dom: withParam(domLen(100, 5000), 1, 1, 20)}, "k xor passes over a private copy (pass i covers j < n-i-1), S over the first n-k bits, V=S/sqrt(n-k)"},
	{"R-EQUIV", "AutocorrelationProto", eqSpec{Pkg: pkgRoot, Name: "AutocorrelationProto", RefName: "AutocorrelationProto", Dom: withParam(domLen(100, 5000), 1, 1, 40)}, "A(d) over i < n-d, V=2(A-(n-d)/2)/sqrt(n-d)"},
	{"R-EQUIV", "CumulativeTest", eqSpec{Pkg: pkgRoot, Name: "CumulativeTest", RefName: "CumulativeTest", Dom: domLen(100, 5000)}, "forward/backward +-1 walk, Z=max|S|, two Phi-series with integer bounds derived from n/Z"},
}

func ruleC03(c *Check, p *Prog) {
	c.Explanation = "equivalence with reference formulations (work in progress)"
	runNumSpecs(c, p, c03Specs)
}

var c04Specs = []numSpec{
	{"R-EQUIV", "MatrixRankProto", eqSpec{Pkg: pkgRoot, Name: "MatrixRankProto", RefName: "MatrixRankProto", Dom: withParam(withParam(domLen(2048, 90000), 1, 2, 32), 2, 2, 32)}, "row-major fill of every cell of the reused matrix per block, classes full/full-1/rest, 0.2888/0.5776/0.1336, igamc(1,V/2)"},
	{"R-EQUIV", "rank", eqSpec{Pkg: pkgRoot, Name: "rank", RefName: "rank", Dom: map[string]Domain{"param:1": {Lo: 2, Hi: 32}}}, "private copy, elimination, count of non-zero rows"},
	{"R-EQUIV", "rowEchelon", eqSpec{Pkg: pkgRoot, Name: "rowEchelon", RefName: "rowEchelon", Dom: map[string]Domain{"param:1": {Lo: 2, Hi: 32}}}, "GF(2) forward elimination: pivot search from the current row, xor-swap, elimination below, column advance"},
	{"R-EQUIV", "LinearComplexityProto", eqSpec{Pkg: pkgRoot, Name: "LinearComplexityProto", RefName: "LinearComplexityProto", Dom: withParam(domLen(1000, 90000), 1, 2, 40)}, "block copy i*m+j, mu, T=(-1)^m(L-mu)+2/9, seven classes, pi table, igamc(3,V/2)"},
	{"R-EQUIV", "linearComplexity", eqSpec{Pkg: pkgRoot, Name: "linearComplexity", RefName: "linearComplexity", Dom: map[string]Domain{"param:1": {Lo: 2, Hi: 40}}}, "Berlekamp-Massey with scratch polynomial of degree M"},
	{"R-EQUIV", "MaurerUniversalTest", eqSpec{Pkg: pkgRoot, Name: "MaurerUniversalTest", RefName: "MaurerUniversalTest", Dom: domLen(9000, 900000)}, "L=7, Q=1280, K=n/7-Q, last-occurrence table, log2 distances, c(L,K), expected 6.1962507, variance 3.125"},
}

func ruleC04(c *Check, p *Prog) {
	c.Explanation = "equivalence with reference formulations (work in progress)"
	runNumSpecs(c, p, c04Specs)
}

var c05Specs = []numSpec{
	{"R-EQUIV", "DiscreteFourierTransformTest", eqSpec{Pkg: pkgRoot, Name: "DiscreteFourierTransformTest", RefName: "DiscreteFourierTransformTest", Dom: domLen(100, 90000)}, "+-1 fill of a zero buffer of size ceilPow2(n), fft.New + Transform, threshold sqrt(2.995732274 n), count i < n/2-1 strict, N0, 3.8 divisor"},
	{"R-EQUIV", "ceilPow2", eqSpec{Pkg: pkgRoot, Name: "ceilPow2", RefName: "ceilPow2", Dom: map[string]Domain{"param:0": {Lo: 1, Hi: 1 << 20}}}, "least power of two >= max(N,2)"},
}

func ruleC05(c *Check, p *Prog) {
	c.Explanation = "equivalence with reference formulations (work in progress)"
	runNumSpecs(c, p, c05Specs)
}

var fdom = map[string]Domain{"param:0": {FLo: 0.5, FHi: 50}, "param:1": {FLo: 0.01, FHi: 80}}

var c06Specs = []numSpec{
	{"R-EQUIV", "igamc", eqSpec{Pkg: pkgRoot, Name: "igamc", RefName: "igamc", Dom: fdom}, "Cephes igamc: clamps, series/continued-fraction switch, prefactor with underflow cut, CF recurrences, MACHEP exit"},
	{"R-EQUIV", "igam", eqSpec{Pkg: pkgRoot, Name: "igam", RefName: "igam", Dom: fdom}, "Cephes igam: clamps, complement switch, power series, MACHEP exit"},
	{"R-EQUIV", "Igamc", eqSpec{Pkg: pkgRoot, Name: "Igamc", RefName: "Igamc", Dom: fdom}, "exported wrapper is igamc"},
}

func ruleC06(c *Check, p *Prog) {
	c.Explanation = "equivalence with reference formulations (work in progress)"
	runNumSpecs(c, p, c06Specs)
}

var c19Specs = []numSpec{
	{"R-EQUIV", "fft.lastPow2", eqSpec{Pkg: pkgFFT, Name: "lastPow2", RefName: "lastPow2", Dom: map[string]Domain{"param:0": {Lo: -2, Hi: 1<<27 + 2}}}, "errors below 2 and above 2^27; largest power of two <= N and its exponent"},
	{"R-EQUIV", "fft.New", eqSpec{Pkg: pkgFFT, Name: "New", RefName: "fftNew", Dom: map[string]Domain{"param:0": {Lo: 2, Hi: 1 << 20}}}, "error propagation with zero FFT; N, p, roots(N), permutationIndex(p)"},
	{"R-EQUIV", "fft.roots", eqSpec{Pkg: pkgFFT, Name: "roots", RefName: "roots", Dom: map[string]Domain{"param:0": {Lo: 2, Hi: 1 << 12}}}, "E[k] = cos(-2 pi k/N) + i sin(-2 pi k/N), k in [0,N)"},
	{"R-EQUIV", "fft.permutationIndex", eqSpec{Pkg: pkgFFT, Name: "permutationIndex", RefName: "permutationIndex", Dom: map[string]Domain{"param:0": {Lo: 1, Hi: 12}}}, "bit-reversal table by doubling"},
	{"R-EQUIV", "fft.inputPermutation", eqSpec{Pkg: pkgFFT, Name: "inputPermutation", RefName: "inputPermutation"}, "swap x[i], x[p[i]] iff i < p[i]"},
	{"R-EQUIV", "fft.Transform", eqSpec{Pkg: pkgFFT, Name: "(FFT).Transform", RefName: "(FFT).Transform"}, "length refusal before any write; permutation; stages with stride halving, butterfly (i,i+n) with twiddles E[k s], E[s(k+n)]"},
	{"R-EQUIV", "fft.Inverse", eqSpec{Pkg: pkgFFT, Name: "(FFT).Inverse", RefName: "(FFT).Inverse"}, "length refusal; reversal of indices 1..N/2-1 with N-i; forward transform; scale by 1/N"},
}

func ruleC19(c *Check, p *Prog) {
	c.Explanation = "equivalence with reference formulations (work in progress)"
	runNumSpecs(c, p, c19Specs)
}

package main

import "fmt"

// Numeric test functions: structural equivalence with the reference formulations in ref/.

type numSpec struct {
	Rule, Key string
	Spec      eqSpec
	What      string
}

func domLen(lo, hi int64) map[string]Domain {
	return map[string]Domain{"len:param:0": {Lo: lo, Hi: hi}}
}

func withParam(d map[string]Domain, idx int, lo, hi int64) map[string]Domain {
	d[fmtParam(idx)] = Domain{Lo: lo, Hi: hi}
	return d
}

func fmtParam(i int) string { return "param:" + string(rune('0'+i)) }

var c01Specs = []numSpec{
	{"R-EQUIV", "MonoBitFrequencyTest", eqSpec{Pkg: pkgRoot, Name: "MonoBitFrequencyTest", RefName: "MonoBitFrequencyTest", Dom: domLen(100, 5000)}, "S=#1-#0 over all n bits; V=S/sqrt(n); erfc pair"},
	{"R-EQUIV", "MonoBitFrequencyTestBytes", eqSpec{Pkg: pkgRoot, Name: "MonoBitFrequencyTestBytes", RefName: "MonoBitFrequencyTestBytes", Dom: domLen(16, 5000)}, "byte form: S += 2*popcount-8 over every byte"},
	{"R-EQUIV", "FrequencyWithinBlockProto", eqSpec{Pkg: pkgRoot, Name: "FrequencyWithinBlockProto", RefName: "FrequencyWithinBlockProto", Dom: withParam(domLen(100, 5000), 1, 2, 90)}, "N=n/m full blocks, bits i*m+j, V=4m*sum(pi-1/2)^2, igamc(N/2,V/2)"},
	{"R-EQUIV", "PokerProto", eqSpec{Pkg: pkgRoot, Name: "PokerProto", RefName: "PokerProto", Dom: withParam(domLen(100, 5000), 1, 2, 9)}, "N=n/m MSB-first patterns, V=2^m/N*sum h^2-N, igamc((2^m-1)/2,V/2)"},
	{"R-EQUIV", "PokerTestBytes", eqSpec{Pkg: pkgRoot, Name: "PokerTestBytes", RefName: "PokerTestBytes", Dom: withParam(domLen(16, 5000), 1, 2, 9), Inline: map[string]bool{}}, "byte fast path for m=4 (both nibbles, high first) and m=8 (every byte); bit path otherwise"},
	{"R-EQUIV", "OverlappingTemplateMatchingProto", eqSpec{Pkg: pkgRoot, Name: "OverlappingTemplateMatchingProto", RefName: "OverlappingTemplateMatchingProto", Dom: withParam(domLen(100, 5000), 1, 2, 8)}, "n cyclic windows (index mod n) for m, m-1, m-2; psi^2 differences; igamc(2^(m-2),.), igamc(2^(m-3),.)"},
	{"R-EQUIV", "ApproximateEntropyProto", eqSpec{Pkg: pkgRoot, Name: "ApproximateEntropyProto", RefName: "ApproximateEntropyProto", Dom: withParam(domLen(100, 5000), 1, 2, 8)}, "cyclic m and m+1 windows; V=2n(ln2-ApEn); igamc(2^(m-1),V/2)"},
}

func runNumSpecs(c *Check, p *Prog, specs []numSpec) {
	for _, s := range specs {
		checkEquiv(c, p, s.Rule, s.Key, s.Spec, s.What)
	}
}

func ruleC01(c *Check, p *Prog) {
	c.Explanation = "Decides for monobit (bit and byte form), block frequency, poker (bit and byte form), overlapping subsequence and approximate entropy: which input positions are read (all n bits; N=n/m full blocks and nothing beyond N*m; n cyclic windows through index mod n; MSB-first pattern value), what each contributes (accumulator transfer functions, histogram increments), and the closed-form map to P and Q (statistic, erfc pair or igamc with the standard's degrees of freedom); R-PART the automatic block length is 10/100/1000/10000/1000000 with regime borders 10^3/10^4/10^6/10^8; R-PRECOND no validation panic fires on admissible input." + numNote(c) + "; igamc itself is C06."
	c.Floor("R-EQUIV", 7)
	runNumSpecs(c, p, c01Specs)
	checkDecisionTable(c, p, "R-PART", "selectM", pkgRoot, "selectM", refSelectM, decisionPts, "block length 10 / 100 / 1000 / 10000 / 1000000 below 10^3 / from 10^3 / 10^4 / 10^6 / 10^8 bits")
	// the chi-square tail function these tests map their statistic through (shared with C06)
	for _, sp := range c06Specs[:2] {
		checkEquiv(c, p, sp.Rule, sp.Key, sp.Spec, sp.What)
	}
	checkPreconds(c, p, "C01")
	checkEntryPoints(c, p, "C01")
}

var c02Specs = []numSpec{
	{"R-EQUIV", "RunsTest", eqSpec{Pkg: pkgRoot, Name: "RunsTest", RefName: "RunsTest", Dom: domLen(100, 5000)}, "runs over the n-1 adjacent pairs, ones over all n bits, V=(Vobs-2n pi(1-pi))/(2 sqrt(n) pi(1-pi))"},
	{"R-EQUIV", "RunsDistributionTest", eqSpec{Pkg: pkgRoot, Name: "RunsDistributionTest", RefName: "RunsDistributionTest", Dom: domLen(100, 5000)}, "cut-off k loop, run-length machine with pooling into class k and last-run flush, e_i, chi-square, igamc(k-1,V/2)"},
	{"R-EQUIV", "LongestRunOfOnesInABlockProto", eqSpec{Pkg: pkgRoot, Name: "LongestRunOfOnesInABlockProto", RefName: "LongestRunOfOnesInABlockProto", Dom: domLen(128, 900000)}, "regimes 6272/750000, per-block longest run of the chosen symbol, clamp into K+1 classes, igamc(K/2,V/2)"},
}

func ruleC02(c *Check, p *Prog) {
	c.Explanation = "Decides for runs, runs distribution and longest run in a block (ones and zeros variants): pairs (i,i+1) over i<n-1 with the last bit counted once; the cut-off loop k=max{i:(n-i+3)/2^(i+2)>=5}; the run-length state machine with pooling into class k and the explicit last-run flush; e_i, chi-square and igamc(k-1,V/2); regime selection at 6272 and 750000 with (m,K,lowest class); per-block longest run with reset per block and clamping into K+1 classes; igamc(K/2,V/2); R-TABLE the three class-probability vectors equal the exact longest-run distribution (recomputed by an exact integer recurrence for m=8, 128, 10000) to their printed precision." + numNote(c) + "."
	c.Floor("R-EQUIV", 3)
	c.Floor("R-TABLE", 3)
	runNumSpecs(c, p, c02Specs)
	checkDecisionTable(c, p, "R-PART", "selectParameters", pkgRoot, "selectParameters", refSelectParameters, decisionPts, "regime 0 / 1 / 2 (block length 8 / 128 / 10000) for n < 6272 / < 750000 / otherwise")
	checkLongestRunTables(c, p)
	// the chi-square tail function these tests map their statistic through (shared with C06)
	for _, sp := range c06Specs[:2] {
		checkEquiv(c, p, sp.Rule, sp.Key, sp.Spec, sp.What)
	}
	checkPreconds(c, p, "C02")
	checkEntryPoints(c, p, "C02")
}

var c03Specs = []numSpec{
	{"R-EQUIV", "BinaryDerivativeProto", eqSpec{Pkg: pkgRoot, Name: "BinaryDerivativeProto", RefName: "BinaryDerivativeProto", Dom: withParam(domLen(100, 5000), 1, 1, 20)}, "k xor passes over a private copy (pass i covers j < n-i-1), S over the first n-k bits, V=S/sqrt(n-k)"},
	{"R-EQUIV", "AutocorrelationProto", eqSpec{Pkg: pkgRoot, Name: "AutocorrelationProto", RefName: "AutocorrelationProto", Dom: withParam(domLen(100, 5000), 1, 1, 40)}, "A(d) over i < n-d, V=2(A-(n-d)/2)/sqrt(n-d)"},
	{"R-EQUIV", "CumulativeTest", eqSpec{Pkg: pkgRoot, Name: "CumulativeTest", RefName: "CumulativeTest", Dom: domLen(100, 5000)}, "forward/backward +-1 walk, Z=max|S|, two Phi-series with integer bounds derived from n/Z"},
}

func ruleC03(c *Check, p *Prog) {
	c.Explanation = "Decides for binary derivative, autocorrelation and cumulative sums: k xor passes over a private copy with pass i covering j<n-i-1, the balance over the first n-k bits, V=S/sqrt(n-k); A(d) over i<n-d with offset d, V=2(A-(n-d)/2)/sqrt(n-d); forward (index i) and backward (index n-1-i) walks with Z=max|S|, and the two Phi-series with their integer (truncating) bounds derived from n/Z, Phi(x)=(1+erf(x/sqrt2))/2." + numNote(c) + "."
	c.Floor("R-EQUIV", 3)
	runNumSpecs(c, p, c03Specs)
	checkPreconds(c, p, "C03")
	checkEntryPoints(c, p, "C03")
}

var c04Specs = []numSpec{
	{"R-EQUIV", "MatrixRankProto", eqSpec{Pkg: pkgRoot, Name: "MatrixRankProto", RefName: "MatrixRankProto", Dom: withParam(withParam(domLen(2048, 90000), 1, 2, 32), 2, 2, 32)}, "row-major fill of every cell of the reused matrix per block, classes full/full-1/rest, 0.2888/0.5776/0.1336, igamc(1,V/2)"},
	{"R-EQUIV", "rank", eqSpec{Pkg: pkgRoot, Name: "rank", RefName: "rank", Dom: map[string]Domain{"param:1": {Lo: 2, Hi: 32}}}, "private copy, elimination, count of non-zero rows"},
	{"R-EQUIV", "rowEchelon", eqSpec{Pkg: pkgRoot, Name: "rowEchelon", RefName: "rowEchelon", Dom: map[string]Domain{"param:1": {Lo: 2, Hi: 32}}}, "GF(2) forward elimination: pivot search from the current row, xor-swap, elimination below, column advance"},
	{"R-EQUIV", "LinearComplexityProto", eqSpec{Pkg: pkgRoot, Name: "LinearComplexityProto", RefName: "LinearComplexityProto", Dom: withParam(domLen(1000, 90000), 1, 2, 40)}, "block copy i*m+j, mu, T=(-1)^m(L-mu)+2/9, seven classes, pi table, igamc(3,V/2)"},
	{"R-EQUIV", "linearComplexity", eqSpec{Pkg: pkgRoot, Name: "linearComplexity", RefName: "linearComplexity", Dom: map[string]Domain{"param:1": {Lo: 2, Hi: 40}}}, "Berlekamp-Massey with scratch polynomial of degree M"},
	{"R-EQUIV", "MaurerUniversalTest", eqSpec{Pkg: pkgRoot, Name: "MaurerUniversalTest", RefName: "MaurerUniversalTest", Dom: domLen(9000, 900000)}, "L=7, Q=1280, K=n/7-Q, last-occurrence table, log2 distances, c(L,K), expected 6.1962507, variance 3.125"},
}

func ruleC04(c *Check, p *Prog) {
	c.Explanation = "Decides for matrix rank, linear complexity and Maurer: block geometry and full, unconditional overwrite of the reused scratch (matrix[j][k], arr[j]) per block, row-major fill order, class partitions, probability tables (R-TABLE: rank probabilities vs the exact GF(2) rank distribution, linear-complexity classes vs 1/96..1/48), mu/T/c(L,K) formulas, L=7/Q=1280/K, igamc degrees of freedom, tails; and ALGORITHM IDENTITY of the helpers with reference formulations of GF(2) forward elimination with xor-swap (rank, rowEchelon) and Berlekamp-Massey (linearComplexity) including the size M+1 of the shifted-polynomial scratch, whose shortfall was the out-of-range write on a block 0^(m-1)1 (fixed, see known_findings.json). NOT decided: crash freedom in general (index ranges in the elimination / Berlekamp-Massey loops need relational invariants; no analyser for that is available) and that the pinned algorithms compute the true rank / shortest LFSR (the reference linearComplexity was validated against brute-force LFSR synthesis for all blocks up to 11 bits at development time)." + numNote(c) + "."
	c.Floor("R-EQUIV", 6)
	runNumSpecs(c, p, c04Specs)
	checkConstTables(c, p, "C04")
	// the chi-square tail function these tests map their statistic through (shared with C06)
	for _, sp := range c06Specs[:2] {
		checkEquiv(c, p, sp.Rule, sp.Key, sp.Spec, sp.What)
	}
	checkPreconds(c, p, "C04")
	checkEntryPoints(c, p, "C04")
}

var c05Specs = []numSpec{
	{"R-EQUIV", "DiscreteFourierTransformTest", eqSpec{Pkg: pkgRoot, Name: "DiscreteFourierTransformTest", RefName: "DiscreteFourierTransformTest", Dom: domLen(100, 90000)}, "+-1 fill of a zero buffer of size ceilPow2(n), fft.New + Transform, threshold sqrt(2.995732274 n), count i < n/2-1 strict, N0, 3.8 divisor"},
	{"R-EQUIV", "ceilPow2", eqSpec{Pkg: pkgRoot, Name: "ceilPow2", RefName: "ceilPow2", Dom: map[string]Domain{"param:0": {Lo: 1, Hi: 1 << 20}}}, "least power of two >= max(N,2)"},
}

func ruleC05(c *Check, p *Prog) {
	c.Explanation = "Decides for the spectral test: +-1 fill of a zero-initialised complex buffer of size ceilPow2(n) (least power of two >= max(n,2), R-EQUIV on ceilPow2), fft.New(N) with its error leading to panic and Transform applied to that fresh buffer, threshold sqrt(2.995732274 n), N0=0.95n/2, strict count over i<n/2-1 of |f_i|, divisor sqrt(0.95*0.05*n/3.8) with the sqrt2 folding, erfc pair. The transform itself is C19." + numNote(c) + "."
	c.Floor("R-EQUIV", 8)
	runNumSpecs(c, p, c05Specs)
	// the transform the test relies on (shared with C19): size limits 2..2^27, plan construction, permutation, butterflies
	for _, sp := range c19Specs {
		if sp.Key != "fft.Inverse" { // the spectral test never calls Inverse
			checkEquiv(c, p, sp.Rule, sp.Key, sp.Spec, sp.What)
		}
	}
	checkPreconds(c, p, "C05")
	checkEntryPoints(c, p, "C05")
}

var fdom = map[string]Domain{"param:0": {FLo: 0.5, FHi: 50}, "param:1": {FLo: 0.01, FHi: 80}}

var c06Specs = []numSpec{
	{"R-EQUIV", "igamc", eqSpec{Pkg: pkgRoot, Name: "igamc", RefName: "igamc", Dom: fdom}, "Cephes igamc: clamps, series/continued-fraction switch, prefactor with underflow cut, CF recurrences, MACHEP exit"},
	{"R-EQUIV", "igam", eqSpec{Pkg: pkgRoot, Name: "igam", RefName: "igam", Dom: fdom}, "Cephes igam: clamps, complement switch, power series, MACHEP exit"},
	{"R-EQUIV", "Igamc", eqSpec{Pkg: pkgRoot, Name: "Igamc", RefName: "Igamc", Dom: fdom}, "exported wrapper is igamc"},
}

func ruleC06(c *Check, p *Prog) {
	c.Explanation = "Decides that igamc/igam ARE the Cephes algorithm: clamps (igamc returns 1 when x<=0 or a<=0 with these strictnesses; igam returns 0), series/continued-fraction switch (x<1 or x<a), prefactor exp(a ln x - x - lgamma a) with the -MAXLOG underflow cut, power-series recurrence (r+=1; c*=x/r; ans+=c; exit !(c/ans>MACHEP); ans*ax/a), continued-fraction initial values, the eight transfer expressions, rescaling by biginv when |pk|>big, exit !(t>MACHEP), result ans*ax; Igamc is igamc; R-TABLE MACHEP=2^-53, big=2^52, biginv=2^-52, MAXLOG=ln(DBL_MAX); R-PART the two mutual delegations are taken under mutually exclusive conditions. The accuracy bound 1e-12+1e-14a, the range [0,1] and monotonicity are INHERITED from the reference algorithm (Cephes igamc with these constants), not decided here." + numNote(c) + "."
	c.Floor("R-EQUIV", 3)
	runNumSpecs(c, p, c06Specs)
	checkConstTables(c, p, "C06")
	checkIgamExclusive(c, p)
}

var c19Specs = []numSpec{
	{"R-EQUIV", "fft.lastPow2", eqSpec{Pkg: pkgFFT, Name: "lastPow2", RefName: "lastPow2", Dom: map[string]Domain{"param:0": {Lo: -2, Hi: 1<<27 + 2}}}, "errors below 2 and above 2^27; largest power of two <= N and its exponent"},
	{"R-EQUIV", "fft.New", eqSpec{Pkg: pkgFFT, Name: "New", RefName: "fftNew", Dom: map[string]Domain{"param:0": {Lo: 2, Hi: 1 << 20}}}, "error propagation with zero FFT; N, p, roots(N), permutationIndex(p)"},
	{"R-EQUIV", "fft.roots", eqSpec{Pkg: pkgFFT, Name: "roots", RefName: "roots", Dom: map[string]Domain{"param:0": {Lo: 2, Hi: 1 << 12}}}, "E[k] = cos(-2 pi k/N) + i sin(-2 pi k/N), k in [0,N)"},
	{"R-EQUIV", "fft.permutationIndex", eqSpec{Pkg: pkgFFT, Name: "permutationIndex", RefName: "permutationIndex", Dom: map[string]Domain{"param:0": {Lo: 1, Hi: 12}}}, "bit-reversal table by doubling"},
	{"R-EQUIV", "fft.inputPermutation", eqSpec{Pkg: pkgFFT, Name: "inputPermutation", RefName: "inputPermutation"}, "swap x[i], x[p[i]] iff i < p[i]"},
	{"R-EQUIV", "fft.Transform", eqSpec{Pkg: pkgFFT, Name: "(FFT).Transform", RefName: "(FFT).Transform"}, "length refusal before any write; permutation; stages with stride halving, butterfly (i,i+n) with twiddles E[k s], E[s(k+n)]"},
	{"R-EQUIV", "fft.Inverse", eqSpec{Pkg: pkgFFT, Name: "(FFT).Inverse", RefName: "(FFT).Inverse"}, "length refusal; reversal of indices 1..N/2-1 with N-i; forward transform; scale by 1/N"},
}

func ruleC19(c *Check, p *Prog) {
	c.Explanation = "Decides for package fft: lastPow2 refuses N<2 and N>2^27 and otherwise returns the largest power of two <= N with its exponent (loop summary); New propagates that error with the zero FFT and builds N, p, roots(N), permutationIndex(p); roots E[k]=cos(-2 pi k/N)+i sin(-2 pi k/N) for k in [0,N) (sign included); the doubling recurrence of the bit-reversal table; swap iff i<p[i]; Transform and Inverse refuse a wrong length before any write to x (the panic precedes every store in the summary), stage loop with stride halving, butterfly pair (i,i+n) with twiddles E[k s], E[s(k+n)] and simultaneous update, n doubling; Inverse = reversal of indices i<->N-i for 1<=i<N/2, forward transform, scale by 1/N. That this is the radix-2 decimation-in-time DFT is the stated paper lemma." + numNote(c) + "."
	c.Floor("R-EQUIV", 7)
	runNumSpecs(c, p, c19Specs)
}

func numNote(c *Check) string {
	return fmt.Sprintf(" Method: each function's if-converted loop-nest summary (loops, induction variables in closed form, accumulator transfer functions, memory events, guards, results) is compared in lock-step with the summary of a reference formulation written from the standard (checker/ref); terms are compared by random interpretation at %d points per comparison with erfc/erf/exp/lgamma/igamc as injective surrogates, comparison atoms by boundary and strictness. NOT decided: floating-point accumulation error (the literal 'within 1e-8')", pointsFor(c))
}

// entry points of a property's tests: every wrapper / runner must forward to the core functions decided above
var propCores = map[string][]string{
	"C01": {"MonoBitFrequencyTestBytes", "MonoBitFrequencyTest", "FrequencyWithinBlockProto", "PokerTestBytes", "PokerProto", "OverlappingTemplateMatchingProto", "ApproximateEntropyProto"},
	"C02": {"RunsTest", "RunsDistributionTest", "LongestRunOfOnesInABlockProto"},
	"C03": {"BinaryDerivativeProto", "AutocorrelationProto", "CumulativeTest"},
	"C04": {"MatrixRankProto", "LinearComplexityProto", "MaurerUniversalTest"},
	"C05": {"DiscreteFourierTransformTest"},
}

func checkEntryPoints(c *Check, p *Prog, prop string) {
	cores := map[string]bool{}
	for _, n := range propCores[prop] {
		cores[n] = true
	}
	for _, ws := range wrapperSpecs {
		if cores[ws.Core] {
			checkWrapper(c, p, "R-FORWARD", ws.Name, ws)
		}
	}
	for _, rs := range runnerSpecs {
		if cores[rs.Core] {
			checkRunner(c, p, rs, "R-RUNNER", "")
		}
	}
	// the byte -> bit adapter every byte entry point and runner above forwards through
	checkBitAdapters(c, p)
}

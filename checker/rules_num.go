package main

// Numeric test functions: structural equivalence with the reference formulations in ref/.

type numSpec struct {
	Rule, Key string
	Spec      eqSpec
	What      string
}

func domLen(lo, hi int64) map[string]Domain {
	return map[string]Domain{"len:param:0": {Lo: lo, Hi: hi}}
}

func withParam(d map[string]Domain, idx int, lo, hi int64) map[string]Domain {
	d[fmtParam(idx)] = Domain{Lo: lo, Hi: hi}
	return d
}

func fmtParam(i int) string { return "param:" + string(rune('0'+i)) }

var c01Specs = []numSpec{
	{"R-EQUIV", "MonoBitFrequencyTest", eqSpec{Pkg: pkgRoot, Name: "MonoBitFrequencyTest", RefName: "MonoBitFrequencyTest", Dom: domLen(100, 5000)}, "S=#1-#0 over all n bits; V=S/sqrt(n); erfc pair"},
	{"R-EQUIV", "MonoBitFrequencyTestBytes", eqSpec{Pkg: pkgRoot, Name: "MonoBitFrequencyTestBytes", RefName: "MonoBitFrequencyTestBytes", Dom: domLen(16, 5000)}, "byte form: S += 2*popcount-8 over every byte"},
	{"R-EQUIV", "FrequencyWithinBlockProto", eqSpec{Pkg: pkgRoot, Name: "FrequencyWithinBlockProto", RefName: "FrequencyWithinBlockProto", Dom: withParam(domLen(100, 5000), 1, 2, 90)}, "N=n/m full blocks, bits i*m+j, V=4m*sum(pi-1/2)^2, igamc(N/2,V/2)"},
	{"R-EQUIV", "PokerProto", eqSpec{Pkg: pkgRoot, Name: "PokerProto", RefName: "PokerProto", Dom: withParam(domLen(100, 5000), 1, 2, 9)}, "N=n/m MSB-first patterns, V=2^m/N*sum h^2-N, igamc((2^m-1)/2,V/2)"},
	{"R-EQUIV", "PokerTestBytes", eqSpec{Pkg: pkgRoot, Name: "PokerTestBytes", RefName: "PokerTestBytes", Dom: withParam(domLen(16, 5000), 1, 2, 9), Inline: map[string]bool{}}, "byte fast path for m=4 (both nibbles, high first) and m=8 (every byte); bit path otherwise"},
	{"R-EQUIV", "OverlappingTemplateMatchingProto", eqSpec{Pkg: pkgRoot, Name: "OverlappingTemplateMatchingProto", RefName: "OverlappingTemplateMatchingProto", Dom: withParam(domLen(100, 5000), 1, 2, 8)}, "n cyclic windows (index mod n) for m, m-1, m-2; psi^2 differences; igamc(2^(m-2),.), igamc(2^(m-3),.)"},
	{"R-EQUIV", "ApproximateEntropyProto", eqSpec{Pkg: pkgRoot, Name: "ApproximateEntropyProto", RefName: "ApproximateEntropyProto", Dom: withParam(domLen(100, 5000), 1, 2, 8)}, "cyclic m and m+1 windows; V=2n(ln2-ApEn); igamc(2^(m-1),V/2)"},
}

func runNumSpecs(c *Check, p *Prog, specs []numSpec) {
	for _, s := range specs {
		checkEquiv(c, p, s.Rule, s.Key, s.Spec, s.What)
	}
}

func ruleC01(c *Check, p *Prog) {
	c.Explanation = "equivalence with reference formulations (work in progress)"
	runNumSpecs(c, p, c01Specs)
}

var c02Specs = []numSpec{
	{"R-EQUIV", "RunsTest", eqSpec{Pkg: pkgRoot, Name: "RunsTest", RefName: "RunsTest", Dom: domLen(100, 5000)}, "runs over the n-1 adjacent pairs, ones over all n bits, V=(Vobs-2n pi(1-pi))/(2 sqrt(n) pi(1-pi))"},
	{"R-EQUIV", "RunsDistributionTest", eqSpec{Pkg: pkgRoot, Name: "RunsDistributionTest", RefName: "RunsDistributionTest", Dom: domLen(100, 5000)}, "cut-off k loop, run-length machine with pooling into class k and last-run flush, e_i, chi-square, igamc(k-1,V/2)"},
	{"R-EQUIV", "LongestRunOfOnesInABlockProto", eqSpec{Pkg: pkgRoot, Name: "LongestRunOfOnesInABlockProto", RefName: "LongestRunOfOnesInABlockProto", Dom: domLen(128, 900000)}, "regimes 6272/750000, per-block longest run of the chosen symbol, clamp into K+1 classes, igamc(K/2,V/2)"},
}

func ruleC02(c *Check, p *Prog) {
	c.Explanation = "equivalence with reference formulations (work in progress)"
	runNumSpecs(c, p, c02Specs)
}

var c03Specs = []numSpec{
	{"R-EQUIV", "BinaryDerivativeProto", eqSpec{Pkg: pkgRoot, Name: "BinaryDerivativeProto", RefName: "BinaryDerivativeProto", Dom: withParam(domLen(100, 5000), 1, 1, 20)}, "k xor passes over a private copy (pass i covers j < n-i-1), S over the first n-k bits, V=S/sqrt(n-k)"},
	{"R-EQUIV", "AutocorrelationProto", eqSpec{Pkg: pkgRoot, Name: "AutocorrelationProto", RefName: "AutocorrelationProto", Dom: withParam(domLen(100, 5000), 1, 1, 40)}, "A(d) over i < n-d, V=2(A-(n-d)/2)/sqrt(n-d)"},
	{"R-EQUIV", "CumulativeTest", eqSpec{Pkg: pkgRoot, Name: "CumulativeTest", RefName: "CumulativeTest", Dom: domLen(100, 5000)}, "forward/backward +-1 walk, Z=max|S|, two Phi-series with integer bounds derived from n/Z"},
}

func ruleC03(c *Check, p *Prog) {
	c.Explanation = "equivalence with reference formulations (work in progress)"
	runNumSpecs(c, p, c03Specs)
}

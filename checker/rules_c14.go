package main

import (
	"fmt"
	"strings"
)

func ruleC14(c *Check, p *Prog) {
	c.Explanation = "Decides only the structural rejection chain, each link a necessary condition (cut any one and a stuck-at source can pass): " +
		"(i) registry item 3 is the poker test and its runner is PokerTestBytes(data, 8); (ii) all six multi-sample workflows apply the pass-count criterion counters[i] < Threshold(s) to EVERY item including item 3, " +
		"and Threshold(20) = 19 > 0, Threshold(50) = 48 > 0 by constant folding of the extracted closed form, so an item that never passes fails the detection; " +
		"(iii) SingleDetect returns P >= Alpha of the poker test of exactly the bytes read; (v) in every workflow the sample judged is the buffer filled by io.ReadFull from the workflow's own source (R-READFULL / R-FRESH-SAMPLE / R-SERIAL, as in C10); (iv) the byte-level poker histogram counts every byte of the sample (equivalence of PokerTestBytes with its reference). " +
		"Arithmetic lemma (not code): with at most p distinct byte values among N bytes, sum n_i^2 >= N^2/p, hence V >= (256/p - 1) N. " +
		"NOT decided: that igamc(127.5, V/2) < 0.01 for such V, i.e. that a periodic sample actually lies in the rejection tail - a numeric fact about the incomplete gamma function (C06 pins the algorithm, not its values)."
	// (i)
	l := p.GlobalLit(pkgRoot, "TestMethodArr")
	ok := l != nil && len(l.Elems) == 15 && l.Elems[2].Fields["Runner"] != nil && l.Elems[2].Fields["Runner"].Obj != nil && l.Elems[2].Fields["Runner"].Obj.Name() == "Poker"
	c.Expect(ok, "R-CHAIN-ITEM3", "TestMethodArr[2]", "structs.go:33", "registry item 3 is the poker runner", "registry item 3 is not the poker runner")
	checkRunner(c, p, runnerSpecs[2], "R-CHAIN-ITEM3", "R-CHAIN-PASS")
	for i, name := range []string{"Round15", "Round12"} {
		checkRound(c, p, name, []int64{15, 12}[i], i == 1)
	}
	// (v) what is judged is what was read from the workflow's own source (a worker that falls back to another reader
	// judges something else)
	checkSampleProvenance(c, p)
	// (ii)
	for _, ref := range seqRefs {
		d := analyzeSeq(c, p, ref.Name, map[string]bool{})
		if d == nil || !d.ok || fillObjects(d) != "" {
			c.Fail("R-CHAIN-DECIDE", ref.Name, "-", "workflow not recognised")
			continue
		}
		d.CountOnly, d.PassOnly = true, true
		checkDecide(c, p, ref.Name, d, ref.S, ref.Items, nil, seqErrorReturn(d))
		rl, _ := roundLenOf(p, d.Round)
		checkAccumulate(c, p, ref.Name, d, d.X.S, d.Sample.Body, d.RoundCall, iterTerm(d.X.S, d.Sample), d.Counters, d.Dist, false, rl)
	}
	for _, ref := range fastRefs {
		d := analyzeFast(c, p, ref.Name)
		if d == nil || !d.ok {
			continue
		}
		d.CountOnly, d.PassOnly = true, true
		checkDecide(c, p, ref.Name, d, ref.S, ref.Items, nil, fastErrorReturn(d))
		rl, _ := roundLenOf(p, d.Round)
		checkAccumulate(c, p, ref.Name+"/worker", d, d.X.S, d.JobLoop.Body, d.RoundCall, d.RecvTok, d.Counters, d.Dist, true, rl)
		// a verdict must be returned at all on a healthy (non-failing) periodic source: every token is dispatched,
		// at least one worker exists, and every job signals completion on the path where the read succeeds
		checkTokenBarrier(c, p, ref.Name, d, ref.S)
		checkWorkers(c, p, "R-WORKERS", ref.Name, d)
		if d.Read != nil {
			rd := d.Read
			checkDoneOnceUnder(c, p, "R-BARRIER", ref.Name+"/done-once-when-read-ok", d, func(S *Store) *Term {
				return S.Cmp("==", S.mkOp("extract1", TRef, S.SymTerm(rd.Res)), S.Nil)
			})
		}
	}
	fn := p.Func(pkgDetect, "Threshold")
	if fn != nil {
		x := NewExt(p, NewStore(), Config{})
		sum := x.Summarize(fn, nil, nil)
		okT := false
		detail := "Threshold is not a loop-free closed form"
		if len(sum.Rets) == 1 && len(sum.Rets[0].Rets) == 1 && sum.Params[0].K == KSym && sum.NLoops == 0 {
			t20 := evalAt(sum.Rets[0].Rets[0], sum.Params[0].Sym, 20, nil).I
			t50 := evalAt(sum.Rets[0].Rets[0], sum.Params[0].Sym, 50, nil).I
			okT = t20 == 19 && t50 == 48
			detail = fmt.Sprintf("Threshold(20) folds to %d, Threshold(50) to %d", t20, t50)
		}
		c.Expect(okT, "R-CHAIN-THRESHOLD", "Threshold", p.Pos(fn.Pos()), "Threshold(20) = 19 > 0 and Threshold(50) = 48 > 0: an item with pass count 0 fails", detail)
	}
	// (iii) single-shot: the verdict is P >= Alpha of the poker test of exactly the bytes read (the m-selection borders do not matter here)
	c14Single(c, p)
	// the one crash that periodic data is known to provoke: a block 0^(m-1)1 needs a shifted polynomial of degree m
	checkLCScratch(c, p)
	// ... and the one a stuck-at source is bound to provoke if it is not prevented: the whole sample is ONE run of
	// length n, far beyond the k classes of the run-length tables
	checkIndexUpper(c, p, "R-RUN-CLAMP", "RunsDistributionTest", "run-length tables b, g, e (k classes)")
	// the tail function that turns the poker statistic into the P-value every link above compares with Alpha: its
	// underflow cut must yield 0 (not 1) for the astronomically large statistics of constant data
	for _, sp := range c06Specs[:2] {
		checkEquiv(c, p, "R-CHAIN-IGAMC", sp.Key, sp.Spec, sp.What)
	}
	// (iv)
	checkEquiv(c, p, "R-CHAIN-POKER-BYTES", "PokerTestBytes", eqSpec{Pkg: pkgRoot, Name: "PokerTestBytes", RefName: "PokerTestBytes", Dom: withParam(domLen(16, 5000), 1, 2, 9)}, "every byte (m=8) / both nibbles of every byte (m=4) is counted")
}

// ruleC11sub re-runs C11's obligations under C14 without touching the explanation.
func ruleC11sub(c *Check, p *Prog) {
	ex := c.Explanation
	ruleC11(c, p)
	c.Explanation = ex
}

func c14Single(c *Check, p *Prog) {
	tmp := NewCheck("C11", c.Tier, c.Seed)
	ruleC11(tmp, p)
	for _, o := range tmp.Obls {
		if o.Rule == "R-SD-READ" || o.Rule == "R-SD-VERDICT" {
			c.add(o.Status, o.Rule, strings.SplitN(o.Key, "@", 2)[1], o.Where, o.Detail)
		}
	}
}

// checkLCScratch: in linearComplexity the scratch slice that is written at a shifted index (j + N - m) has room for degree M.
func checkLCScratch(c *Check, p *Prog) {
	fn := p.Func(pkgRoot, "linearComplexity")
	if fn == nil {
		c.Fail("R-LC-SCRATCH", "linearComplexity", "-", "not found")
		return
	}
	x := NewExt(p, NewStore(), numConfig(fn))
	sum := x.Summarize(fn, nil, nil)
	S := x.S
	where := p.Pos(fn.Pos())
	if len(sum.Undecided) > 0 || len(sum.Params) != 2 {
		c.Undecided("R-LC-SCRATCH", "linearComplexity", where, "%s", strings.Join(sum.Undecided, "; "))
		return
	}
	M := sum.Params[1]
	n, bad := 0, []string{}
	sum.Top.Events(func(e *Event, loops []*LoopS) {
		if e.Kind != "store" || len(e.Path) != 1 {
			return
		}
		// shifted index: depends on something other than the innermost iteration counter
		plain := false
		for _, l := range loops {
			if e.Path[0] == S.SymTerm(l.Iter) {
				plain = true
			}
		}
		if plain || e.Path[0].IsConst() {
			return
		}
		n++
		al := objAlloc(sum, e.Root)
		if al == nil || al.Len == nil || al.Len != S.Add(M, S.Int(1)) {
			ln := "?"
			if al != nil && al.Len != nil {
				ln = al.Len.String()
			}
			bad = append(bad, fmt.Sprintf("store at shifted index %v into a slice of length %s at %s", e.Path[0], ln, p.Pos(e.Pos)))
		}
	})
	c.Expect(n >= 1 && len(bad) == 0, "R-LC-SCRATCH", "linearComplexity", where,
		"the slice written at the shifted index j+N-m has M+1 elements (a block of M-1 zeros followed by a one reaches index M)",
		"shifted-index store without room for degree M: "+strings.Join(bad, "; "))
}

// checkIndexUpper: every index into an object allocated by the function is provably below the object's length:
// syntactically (min(len, x)-1, len-c), or implied by the access's own path condition and the conditions of the
// enclosing loops. Lower bounds are not examined.
func checkIndexUpper(c *Check, p *Prog, rule, name, what string) {
	fn := p.Func(pkgRoot, name)
	if fn == nil {
		c.Fail(rule, name, "-", "function not found")
		return
	}
	x := NewExt(p, NewStore(), numConfig(fn))
	sum := x.Summarize(fn, nil, nil)
	S := x.S
	where := p.Pos(fn.Pos())
	if len(sum.Undecided) > 0 {
		c.Undecided(rule, name, where, "%s", strings.Join(sum.Undecided, "; "))
		return
	}
	normalizeSummary(S, sum)
	lens := map[*Symbol]*Term{}
	sum.Top.Events(func(e *Event, _ []*LoopS) {
		if e.Kind == "alloc" && e.Res != nil && e.Len != nil {
			lens[e.Res] = e.Len
		}
	})
	n := 0
	var bad []string
	sum.Top.Events(func(e *Event, loops []*LoopS) {
		if (e.Kind != "load" && e.Kind != "store") || e.Root == nil || e.Root.K != KSym || len(e.Path) != 1 {
			return
		}
		L := lens[e.Root.Sym]
		if L == nil {
			return
		}
		n++
		idx := e.Path[0]
		// idx + 1 <= L ?
		d := S.Sub(S.Add(idx, S.Int(1)), L)
		if v, ok := d.IntVal(); ok && v <= 0 {
			return
		}
		// min(L, x) - 1
		for _, pr := range [][2]*Term{{idx, L}} {
			i1 := S.Add(pr[0], S.Int(1))
			if i1.Op == "imin" && (i1.Args[0] == pr[1] || i1.Args[1] == pr[1]) {
				return
			}
		}
		ctx := e.Guard
		if ctx == nil {
			ctx = S.True
		}
		var facts []*Term // linear forms known to be <= 0 here
		for _, l := range loops {
			if l.Cont != nil && l.Trip != nil {
				// inside a counted loop the iteration counter is below the trip count
				ctx = S.And(ctx, S.Cmp("<", S.SymTerm(l.Iter), l.Trip))
				if l.Trip.Op == "max0" {
					ctx = S.And(ctx, S.Cmp("<", S.SymTerm(l.Iter), l.Trip.Args[0]))
					facts = append(facts, S.Add(S.Sub(S.SymTerm(l.Iter), l.Trip.Args[0]), S.Int(1)))
				}
			}
		}
		if S.Implies(ctx, S.le0(d)) {
			return
		}
		// d <= f for a known f <= 0 (the loop stops even earlier than the table ends)
		for _, f := range facts {
			if v, ok := S.Sub(d, f).IntVal(); ok && v <= 0 {
				return
			}
		}
		bad = append(bad, fmt.Sprintf("%s of %v[%v] at %s: the index is not bounded by the length %v on this path", e.Kind, e.Root, idx, p.Pos(e.Pos), L))
	})
	c.Expect(len(bad) == 0 && n >= 4, rule, name, where,
		fmt.Sprintf("all %d accesses of the %s stay below the table length (a run longer than the last class is counted in the last class)", n, what),
		strings.Join(bad, "; "))
}

package main

// Term language: hash-consed expression DAGs extracted from go/ssa.
//
// Integer arithmetic is kept in a canonical linear form (sum of coef*atom + const) so that
// cursor idioms, `for`/`range` counters and re-expressed constants normalise to the same term.
// Floating-point arithmetic is kept as written (equality is decided by random interpretation).

import (
	"fmt"
	"go/constant"
	"go/token"
	"math/big"
	"sort"
	"strings"
)

type TyClass uint8

const (
	TInt TyClass = iota
	TFloat
	TBool
	TString
	TComplex
	TRef // pointers, slices, maps, chans, funcs, interfaces, objects
	TTuple
	TOther
)

func (t TyClass) String() string {
	return [...]string{"int", "float", "bool", "string", "complex", "ref", "tuple", "other"}[t]
}

type Kind uint8

const (
	KConst Kind = iota
	KSym
	KOp
)

// Symbol kinds
const (
	SParam   = "param"   // function parameter (unbound)
	SFree    = "free"    // free variable (unbound)
	SGlobal  = "global"  // package-level variable (address)
	SFunc    = "func"    // function value
	SObj     = "obj"     // allocation site instance
	SLoopVar = "mu"      // loop-carried value at iteration start
	SIter    = "iota"    // canonical iteration counter 0,1,2,...
	SIterEnd = "iotaend" // iteration counter value at loop exit (unknown trip)
	SExit    = "exit"    // boolean: loop left through exit k
	SOut     = "out"     // value live out of a loop (opaque)
	SRes     = "res"     // result of an event (load of mutable memory, impure call, recv)
	SOpaque  = "opaque"  // unknown
	SBuiltin = "builtin"
)

type Symbol struct {
	Kind  string
	Name  string // printable, unique within a Store
	Ty    TyClass
	Loop  *LoopS      // for mu/iota/exit/out
	Idx   int         // parameter index / carried index / exit index
	Obj   interface{} // *ssa.Global, *ssa.Function, ssa.Instruction (alloc site), ...
	Ev    *Event      // for res
	Pos   token.Pos
	Attr  map[string]*Term // e.g. "len" for objects
	uid   int
	Canon string // canonical cross-program name for globals/functions (pkgpath.Name)
}

type Term struct {
	K    Kind
	Op   string
	Args []*Term
	C    constant.Value // for KConst (nil for the nil reference)
	Sym  *Symbol
	Ty   TyClass
	// linear form (Op == "lin"): Args are atoms, Coefs their coefficients, Off the constant
	Coefs []*big.Int
	Off   *big.Int
	id    int
}

type Store struct {
	tab   map[string]*Term
	next  int
	nsym  int
	True  *Term
	False *Term
	Nil   *Term
}

func NewStore() *Store {
	s := &Store{tab: map[string]*Term{}}
	s.True = s.Const(constant.MakeBool(true), TBool)
	s.False = s.Const(constant.MakeBool(false), TBool)
	s.Nil = s.intern(&Term{K: KConst, Ty: TRef}, "nil")
	return s
}

func (s *Store) intern(t *Term, key string) *Term {
	if old, ok := s.tab[key]; ok {
		return old
	}
	s.next++
	t.id = s.next
	s.tab[key] = t
	return t
}

func (s *Store) NewSym(kind, name string, ty TyClass) *Symbol {
	s.nsym++
	return &Symbol{Kind: kind, Name: fmt.Sprintf("%s#%d", name, s.nsym), Ty: ty, uid: s.nsym}
}

func (s *Store) SymTerm(sym *Symbol) *Term {
	return s.intern(&Term{K: KSym, Sym: sym, Ty: sym.Ty}, fmt.Sprintf("sym:%d", sym.uid))
}

func (s *Store) Const(c constant.Value, ty TyClass) *Term {
	key := fmt.Sprintf("c:%d:%s", ty, c.ExactString())
	if ty == TInt {
		if i, ok := constant.Val(constant.ToInt(c)).(*big.Int); ok {
			return s.linMake(nil, nil, i)
		} else if i64, ok := constant.Int64Val(constant.ToInt(c)); ok {
			return s.linMake(nil, nil, big.NewInt(i64))
		}
	}
	return s.intern(&Term{K: KConst, C: c, Ty: ty}, key)
}

func (s *Store) Int(i int64) *Term { return s.linMake(nil, nil, big.NewInt(i)) }
func (s *Store) Float(f float64) *Term {
	return s.Const(constant.MakeFloat64(f), TFloat)
}
func (s *Store) Bool(b bool) *Term {
	if b {
		return s.True
	}
	return s.False
}
func (s *Store) Str(x string) *Term { return s.Const(constant.MakeString(x), TString) }

// ---- integer linear forms ----

func (s *Store) linMake(atoms []*Term, coefs []*big.Int, off *big.Int) *Term {
	// combine equal atoms, drop zero coefficients, sort by id
	type pr struct {
		a *Term
		c *big.Int
	}
	m := map[int]*pr{}
	for i, a := range atoms {
		if p, ok := m[a.id]; ok {
			p.c = new(big.Int).Add(p.c, coefs[i])
		} else {
			m[a.id] = &pr{a, new(big.Int).Set(coefs[i])}
		}
	}
	var ps []*pr
	for _, p := range m {
		if p.c.Sign() != 0 {
			ps = append(ps, p)
		}
	}
	sort.Slice(ps, func(i, j int) bool { return ps[i].a.id < ps[j].a.id })
	if off == nil {
		off = new(big.Int)
	}
	if len(ps) == 1 && off.Sign() == 0 && ps[0].c.Cmp(big.NewInt(1)) == 0 {
		return ps[0].a
	}
	var sb strings.Builder
	sb.WriteString("lin:")
	sb.WriteString(off.String())
	t := &Term{K: KOp, Op: "lin", Ty: TInt, Off: off}
	for _, p := range ps {
		fmt.Fprintf(&sb, ",%d*%s", p.a.id, p.c.String())
		t.Args = append(t.Args, p.a)
		t.Coefs = append(t.Coefs, p.c)
	}
	if len(ps) == 0 {
		t.K = KConst
		t.C = constant.Make(off)
		t.Op = ""
	}
	return s.intern(t, sb.String())
}

// linParts returns the linear decomposition of an integer term.
func linParts(t *Term) (atoms []*Term, coefs []*big.Int, off *big.Int) {
	if t.K == KConst && t.Ty == TInt {
		v, _ := constant.Val(constant.ToInt(t.C)).(*big.Int)
		if v == nil {
			i64, _ := constant.Int64Val(constant.ToInt(t.C))
			v = big.NewInt(i64)
		}
		return nil, nil, v
	}
	if t.Op == "lin" {
		return t.Args, t.Coefs, t.Off
	}
	return []*Term{t}, []*big.Int{big.NewInt(1)}, new(big.Int)
}

func (t *Term) IsConst() bool { return t.K == KConst }
func (t *Term) IntVal() (int64, bool) {
	if t.K == KConst && t.Ty == TInt {
		_, _, off := linParts(t)
		if off.IsInt64() {
			return off.Int64(), true
		}
	}
	return 0, false
}
func (t *Term) FloatVal() (float64, bool) {
	if t.K == KConst && (t.Ty == TFloat || t.Ty == TInt) && t.C != nil {
		f, _ := constant.Float64Val(constant.ToFloat(t.C))
		return f, true
	}
	return 0, false
}
func (t *Term) BoolVal() (bool, bool) {
	if t.K == KConst && t.Ty == TBool {
		return constant.BoolVal(t.C), true
	}
	return false, false
}
func (t *Term) StrVal() (string, bool) {
	if t.K == KConst && t.Ty == TString {
		return constant.StringVal(t.C), true
	}
	return "", false
}
func (t *Term) IsNil() bool { return t.K == KConst && t.Ty == TRef && t.C == nil }

func (s *Store) Add(a, b *Term) *Term {
	aa, ac, ao := linParts(a)
	ba, bc, bo := linParts(b)
	return s.linMake(append(append([]*Term{}, aa...), ba...), append(append([]*big.Int{}, ac...), bc...), new(big.Int).Add(ao, bo))
}
func (s *Store) Neg(a *Term) *Term { return s.MulC(a, big.NewInt(-1)) }
func (s *Store) Sub(a, b *Term) *Term { return s.Add(a, s.Neg(b)) }
func (s *Store) MulC(a *Term, c *big.Int) *Term {
	aa, ac, ao := linParts(a)
	nc := make([]*big.Int, len(ac))
	for i := range ac {
		nc[i] = new(big.Int).Mul(ac[i], c)
	}
	return s.linMake(aa, nc, new(big.Int).Mul(ao, c))
}
func (s *Store) MulI(a, b *Term) *Term {
	if v, ok := a.IntVal(); ok {
		return s.MulC(b, big.NewInt(v))
	}
	if v, ok := b.IntVal(); ok {
		return s.MulC(a, big.NewInt(v))
	}
	// distribute over linear forms: (sum c_i x_i + k) * y = sum c_i (x_i * y) + k*y
	if a.Op == "lin" {
		as, cs, off := linParts(a)
		acc := s.MulC(b, off)
		for i, x := range as {
			acc = s.Add(acc, s.MulC(s.MulI(x, b), cs[i]))
		}
		return acc
	}
	if b.Op == "lin" {
		return s.MulI(b, a)
	}
	// n-ary commutative product of atoms, flattened and sorted
	var fs []*Term
	for _, x := range []*Term{a, b} {
		if x.Op == "imul" {
			fs = append(fs, x.Args...)
		} else {
			fs = append(fs, x)
		}
	}
	sort.Slice(fs, func(i, j int) bool { return fs[i].id < fs[j].id })
	return s.mkOp("imul", TInt, fs...)
}

func (s *Store) mkOp(op string, ty TyClass, args ...*Term) *Term {
	var sb strings.Builder
	sb.WriteString("op:")
	sb.WriteString(op)
	fmt.Fprintf(&sb, ":%d", ty)
	for _, a := range args {
		if a == nil {
			panic("nil arg in mkOp " + op)
		}
		fmt.Fprintf(&sb, ",%d", a.id)
	}
	return s.intern(&Term{K: KOp, Op: op, Ty: ty, Args: args}, sb.String())
}

// Op builds an operator term with light constant folding / normalisation.
func (s *Store) Op(op string, ty TyClass, args ...*Term) *Term {
	switch op {
	case "iadd":
		return s.Add(args[0], args[1])
	case "isub":
		return s.Sub(args[0], args[1])
	case "ineg":
		return s.Neg(args[0])
	case "imul":
		acc := args[0]
		for _, x := range args[1:] {
			acc = s.MulI(acc, x)
		}
		return acc
	case "shl":
		if k, ok := args[1].IntVal(); ok && k >= 0 && k < 62 {
			return s.MulC(args[0], new(big.Int).Lsh(big.NewInt(1), uint(k)))
		}
		if a, ok := args[0].IntVal(); ok {
			if k, ok2 := args[1].IntVal(); ok2 && k >= 0 && k < 62 {
				return s.Int(a << uint(k))
			}
		}
	case "shr":
		// x >> k on a non-negative x is x / 2^k
		if k, ok := args[1].IntVal(); ok && k >= 0 && k < 62 && nonNeg(args[0]) {
			return s.Op("idiv", TInt, args[0], s.Int(int64(1)<<uint(k)))
		}
		// exact for either sign when every coefficient and the offset are multiples of 2^k
		if k, ok := args[1].IntVal(); ok && k > 0 && k < 62 {
			as, cs, off := linParts(args[0])
			bb := new(big.Int).Lsh(big.NewInt(1), uint(k))
			all := new(big.Int).Mod(off, bb).Sign() == 0
			for _, c := range cs {
				if new(big.Int).Mod(c, bb).Sign() != 0 {
					all = false
				}
			}
			if all && len(as) > 0 {
				nc := make([]*big.Int, len(cs))
				for i := range cs {
					nc[i] = new(big.Int).Quo(cs[i], bb)
				}
				return s.linMake(as, nc, new(big.Int).Quo(off, bb))
			}
		}
	case "and":
		// x & 1 on a non-negative x is x % 2
		for i := 0; i < 2 && len(args) == 2; i++ {
			if k, ok := args[i].IntVal(); ok && k == 1 && nonNeg(args[1-i]) {
				return s.Op("imod", TInt, args[1-i], s.Int(2))
			}
		}
	case "idiv":
		if a, ok := args[0].IntVal(); ok {
			if b, ok2 := args[1].IntVal(); ok2 && b != 0 {
				return s.Int(a / b)
			}
		}
		if b, ok := args[1].IntVal(); ok && b == 1 {
			return args[0]
		}
		if b, ok := args[1].IntVal(); ok && b > 1 {
			// exact when every coefficient and the offset are multiples of b
			as, cs, off := linParts(args[0])
			bb := big.NewInt(b)
			all := new(big.Int).Mod(off, bb).Sign() == 0
			for _, c := range cs {
				if new(big.Int).Mod(c, bb).Sign() != 0 {
					all = false
				}
			}
			if all && len(as) > 0 {
				nc := make([]*big.Int, len(cs))
				for i := range cs {
					nc[i] = new(big.Int).Quo(cs[i], bb)
				}
				return s.linMake(as, nc, new(big.Int).Quo(off, bb))
			}
		}
	case "imod":
		if a, ok := args[0].IntVal(); ok {
			if b, ok2 := args[1].IntVal(); ok2 && b != 0 {
				return s.Int(a % b)
			}
		}
	case "not":
		return s.Not(args[0])
	case "len":
		if len(args) == 1 {
			a := args[0]
			if a.Op == "slice" && len(a.Args) == 3 {
				return a.Args[2] // len(r[off:off+n]) == n
			}
			if a.IsNil() {
				return s.Int(0)
			}
			if a.Op == "ite" && (a.Args[1].Op == "slice" || a.Args[1].IsNil()) && (a.Args[2].Op == "slice" || a.Args[2].IsNil()) {
				return s.Op("ite", TInt, a.Args[0], s.Op("len", TInt, a.Args[1]), s.Op("len", TInt, a.Args[2]))
			}
		}
	case "ite":
		if b, ok := args[0].BoolVal(); ok {
			if b {
				return args[1]
			}
			return args[2]
		}
		if args[1] == args[2] {
			return args[1]
		}
		// ite(c, true, false) == c ; ite(c,false,true) == !c
		if args[1] == s.True && args[2] == s.False {
			return args[0]
		}
		if args[1] == s.False && args[2] == s.True {
			return s.Not(args[0])
		}
		// nested ite on the same condition
		if args[2].Op == "ite" && args[2].Args[0] == args[0] {
			return s.Op("ite", ty, args[0], args[1], args[2].Args[2])
		}
		if args[1].Op == "ite" && args[1].Args[0] == args[0] {
			return s.Op("ite", ty, args[0], args[1].Args[1], args[2])
		}
		// canonical polarity: condition is never a "not"
		if args[0].Op == "not" {
			return s.Op("ite", ty, args[0].Args[0], args[2], args[1])
		}
		// ite(a == b, a, b) is b (a helper's `if err != nil { return nil, err }; return v, nil` seen from its caller)
		if c := args[0]; c.Op == "eq" && len(c.Args) == 2 {
			if (c.Args[0] == args[1] && c.Args[1] == args[2]) || (c.Args[1] == args[1] && c.Args[0] == args[2]) {
				return args[2]
			}
		}
		// integer max / min / abs written with a comparison: every spelling (>, >=, swapped branches) selects the
		// same value, so they get one canonical operator (not so for floats: NaN and signed zeros)
		if ty == TInt && args[0].Op == "le0" && args[1].Ty == TInt && args[2].Ty == TInt {
			d, p, q2 := args[0].Args[0], args[1], args[2]
			one := s.Int(1)
			if p == s.Neg(q2) {
				// ite(q<0, -q, q), ite(q<=0, -q, q), ite(p>0, p, -p), ite(p>=0, p, -p)
				if d == q2 || d == s.Add(q2, one) {
					return s.intSel("iabs", q2)
				}
			}
			qp, pq := s.Sub(q2, p), s.Sub(p, q2)
			switch {
			case d == qp || d == s.Add(qp, one): // p >= q or p > q selects p
				return s.intSel("imax", p, q2)
			case d == pq || d == s.Add(pq, one): // p <= q or p < q selects p
				return s.intSel("imin", p, q2)
			}
		}
	case "fneg":
		if f, ok := args[0].FloatVal(); ok && args[0].Ty == TFloat {
			return s.Float(-f)
		}
	case "i2f":
		if v, ok := args[0].IntVal(); ok {
			return s.Float(float64(v))
		}
	case "f2i":
		if args[0].Op == "i2f" {
			return args[0].Args[0]
		}
	case "land":
		return s.And(args[0], args[1])
	case "lor":
		return s.Or(args[0], args[1])
	}
	return s.mkOp(op, ty, args...)
}

// ---- comparisons, canonicalised ----
// integers:  a <  b  ==> le0(a-b+1) ; a <= b ==> le0(a-b) ; a == b ==> eq0(a-b)
// floats:    a <  b  ==> flt(a,b)   ; a <= b ==> fle(a,b) ; >,>= swap operands
// negation of lt/le on floats assumes no NaN (stated in the trusted base).

func (s *Store) Cmp(op string, a, b *Term) *Term {
	if a.Ty == TInt && b.Ty == TInt {
		switch op {
		case "<":
			return s.le0(s.Add(s.Sub(a, b), s.Int(1)))
		case "<=":
			return s.le0(s.Sub(a, b))
		case ">":
			return s.le0(s.Add(s.Sub(b, a), s.Int(1)))
		case ">=":
			return s.le0(s.Sub(b, a))
		case "==":
			return s.eq0(s.Sub(a, b))
		case "!=":
			return s.Not(s.eq0(s.Sub(a, b)))
		}
	}
	if a.Ty == TFloat || b.Ty == TFloat {
		switch op {
		case "<":
			return s.mkOp("flt", TBool, a, b)
		case "<=":
			return s.mkOp("fle", TBool, a, b)
		case ">":
			return s.mkOp("flt", TBool, b, a)
		case ">=":
			return s.mkOp("fle", TBool, b, a)
		case "==":
			x, y := a, b
			if x.id > y.id {
				x, y = y, x
			}
			return s.mkOp("feq", TBool, x, y)
		case "!=":
			x, y := a, b
			if x.id > y.id {
				x, y = y, x
			}
			return s.Not(s.mkOp("feq", TBool, x, y))
		}
	}
	// generic equality (bool, refs, strings)
	x, y := a, b
	if x.id > y.id {
		x, y = y, x
	}
	switch op {
	case "==":
		if a.Ty == TBool {
			if v, ok := x.BoolVal(); ok {
				if v {
					return y
				}
				return s.Not(y)
			}
			if v, ok := y.BoolVal(); ok {
				if v {
					return x
				}
				return s.Not(x)
			}
			return s.Not(s.mkOp("bxor", TBool, x, y))
		}
		if x == y {
			return s.True
		}
		// errors.New / fmt.Errorf never return nil
		for _, pr := range [][2]*Term{{x, y}, {y, x}} {
			if pr[0].IsNil() && (pr[1].Op == "call:errors.New" || pr[1].Op == "call:fmt.Errorf") {
				return s.False
			}
		}
		// comparison of a selected value with a constant (err == nil after `if c { err = f() }`): select the comparison
		for _, pr := range [][2]*Term{{x, y}, {y, x}} {
			if pr[0].Op == "ite" && pr[1].K == KConst {
				return s.Op("ite", TBool, pr[0].Args[0], s.Cmp("==", pr[0].Args[1], pr[1]), s.Cmp("==", pr[0].Args[2], pr[1]))
			}
		}
		return s.mkOp("eq", TBool, x, y)
	case "!=":
		if a.Ty == TBool {
			if v, ok := x.BoolVal(); ok {
				if v {
					return s.Not(y)
				}
				return y
			}
			if v, ok := y.BoolVal(); ok {
				if v {
					return s.Not(x)
				}
				return x
			}
			return s.mkOp("bxor", TBool, x, y)
		}
		if x == y {
			return s.False
		}
		return s.Not(s.Cmp("==", a, b))
	}
	return s.mkOp("cmp"+op, TBool, a, b)
}

// nonNeg: syntactically non-negative integer terms (masks, unsigned narrowings, lengths).
func nonNeg(t *Term) bool {
	if v, ok := t.IntVal(); ok {
		return v >= 0
	}
	switch {
	case t.Op == "and":
		return nonNeg(t.Args[0]) || nonNeg(t.Args[1])
	case t.Op == "len" || t.Op == "max0" || t.Op == "narrow:uint8" || t.Op == "narrow:byte" || t.Op == "narrow:uint16" || t.Op == "narrow:uint32":
		return true
	case t.Op == "shr", t.Op == "shl":
		return nonNeg(t.Args[0])
	case t.Op == "call:math/bits.OnesCount8":
		return true
	case t.K == KSym && t.Sym.Kind == SIter:
		return true // iteration counters start at 0
	case t.K == KSym && t.Sym.Kind == SIterEnd:
		return true
	case t.K == KSym && t.Sym.Attr != nil && t.Sym.Attr["nonneg"] != nil:
		return true // a counter that starts non-negative and never decreases (markMonotoneCounters)
	case t.Op == "iabs":
		return true
	case t.Op == "imax":
		return nonNeg(t.Args[0]) || nonNeg(t.Args[1])
	case t.Op == "imin", t.Op == "imul":
		for _, a := range t.Args {
			if !nonNeg(a) {
				return false
			}
		}
		return true
	case t.Op == "idiv":
		if b, ok := t.Args[1].IntVal(); ok && b > 0 {
			return nonNeg(t.Args[0])
		}
	case t.Op == "imod":
		if b, ok := t.Args[1].IntVal(); ok && b > 0 {
			return nonNeg(t.Args[0])
		}
	case t.Op == "lin":
		if t.Off.Sign() < 0 {
			return false
		}
		for i, a := range t.Args {
			if t.Coefs[i].Sign() < 0 || !nonNeg(a) {
				return false
			}
		}
		return true
	}
	return false
}

// posLoad (set by the equivalence runner) decides loads from read-only literal tables.
var posLoad func(*Term) bool

// isPos: t >= 1 for every valuation (a doubling stride that starts at 1, a length plus one, ...).
func isPos(t *Term) bool {
	if v, ok := t.IntVal(); ok {
		return v > 0
	}
	switch {
	case t.K == KSym && t.Sym.Attr != nil && t.Sym.Attr["pos"] != nil:
		return true // a carried variable that starts positive and is only doubled / increased (markMonotoneCounters)
	case t.Op == "imul":
		for _, a := range t.Args {
			if !isPos(a) {
				return false
			}
		}
		return true
	case t.Op == "ld" && posLoad != nil:
		return posLoad(t) // an entry of a read-only literal table all of whose entries are positive
	case t.Op == "shl":
		return isPos(t.Args[0]) && nonNeg(t.Args[1])
	case t.Op == "imax":
		return isPos(t.Args[0]) || isPos(t.Args[1])
	case t.Op == "lin":
		if t.Off.Sign() < 0 {
			return false
		}
		pos := t.Off.Sign() > 0
		for i, a := range t.Args {
			if t.Coefs[i].Sign() < 0 || !nonNeg(a) {
				return false
			}
			if t.Coefs[i].Sign() > 0 && isPos(a) {
				pos = true
			}
		}
		return pos
	}
	return false
}

// divideOut: d = g*q*X + off with g the gcd of the coefficients and q a common factor of every monomial known to be
// >= 1. Returns X (the monomials divided by g*q) and the offset, ok=false when there is nothing to divide out.
func (s *Store) divideOut(d *Term) (x *Term, off *big.Int, g *big.Int, q *Term, ok bool) {
	as, cs, off := linParts(d)
	if len(as) == 0 {
		return nil, nil, nil, nil, false
	}
	g = new(big.Int)
	for _, c := range cs {
		g.GCD(nil, nil, g, new(big.Int).Abs(c))
	}
	factors := func(m *Term) []*Term {
		if m.Op == "imul" {
			return m.Args
		}
		return []*Term{m}
	}
	for _, cand := range factors(as[0]) {
		if !isPos(cand) {
			continue
		}
		all := true
		for _, m := range as[1:] {
			has := false
			for _, f := range factors(m) {
				if f == cand {
					has = true
				}
			}
			if !has {
				all = false
				break
			}
		}
		if all {
			q = cand
			break
		}
	}
	if g.Cmp(big.NewInt(1)) <= 0 && q == nil {
		return nil, nil, nil, nil, false
	}
	if g.Sign() == 0 {
		return nil, nil, nil, nil, false
	}
	x = s.Int(0)
	for i, m := range as {
		mm := m
		if q != nil {
			var rest []*Term
			dropped := false
			for _, f := range factors(m) {
				if f == q && !dropped {
					dropped = true
					continue
				}
				rest = append(rest, f)
			}
			switch len(rest) {
			case 0:
				mm = s.Int(1)
			case 1:
				mm = rest[0]
			default:
				mm = s.mkOp("imul", TInt, rest...)
			}
		}
		x = s.Add(x, s.MulC(mm, new(big.Int).Quo(cs[i], g)))
	}
	return x, off, g, q, true
}

// liftSel: a comparison of a linear form containing a selection with a constant arm (a helper's `return -1` sentinel)
// is the selection of the comparisons: cmp(a + ite(c, k, x)) == ite(c, cmp(a+k), cmp(a+x)).
func (s *Store) liftSel(d *Term, cmp func(*Term) *Term) *Term {
	as, cs, _ := linParts(d)
	for i, a := range as {
		if a.Op != "ite" || a.Ty != TInt {
			continue
		}
		_, k1 := a.Args[1].IntVal()
		_, k2 := a.Args[2].IntVal()
		if !k1 && !k2 {
			continue
		}
		rest := s.Sub(d, s.MulC(a, cs[i]))
		hi := cmp(s.Add(rest, s.MulC(a.Args[1], cs[i])))
		lo := cmp(s.Add(rest, s.MulC(a.Args[2], cs[i])))
		return s.Op("ite", TBool, a.Args[0], hi, lo)
	}
	return nil
}

func (s *Store) le0(d *Term) *Term {
	if v, ok := d.IntVal(); ok {
		return s.Bool(v <= 0)
	}
	if r := s.liftSel(d, s.le0); r != nil {
		return r
	}
	// a sum of non-negative terms plus a positive constant is positive
	if d.Op == "lin" && d.Off.Sign() > 0 && nonNeg(d) {
		return s.False
	}
	// minus a sum of non-negative terms is never positive
	if d.Op == "lin" && d.Off.Sign() <= 0 && len(d.Args) > 1 && nonNeg(s.Neg(d)) {
		return s.True
	}
	// x > 0 on a non-negative x is x != 0 ; x <= 0 is x == 0
	if as, cs, off := linParts(d); len(as) == 1 && nonNeg(as[0]) {
		if cs[0].Cmp(big.NewInt(-1)) == 0 && off.Cmp(big.NewInt(1)) == 0 {
			return s.Not(s.eq0(as[0]))
		}
		if cs[0].Cmp(big.NewInt(1)) == 0 && off.Sign() == 0 {
			return s.eq0(as[0])
		}
	}
	// g*q*X + off <= 0 with g the gcd of the coefficients and q >= 1 a factor common to all monomials: with q absent
	// it is X <= floor(-off/g), i.e. X + ceil(off/g) <= 0; with q present and off in {0, 1} (after the gcd step) it is
	// X + off <= 0 (o < s*step over o = i*step, step >= 1, is i < s)
	if x, off, g, q, ok := s.divideOut(d); ok {
		no := new(big.Int)
		m := new(big.Int)
		no.DivMod(off, g, m) // floor division
		if m.Sign() != 0 {
			no.Add(no, big.NewInt(1)) // ceil
		}
		if q == nil {
			return s.le0(s.Add(x, s.linMake(nil, nil, no)))
		}
		if no.Sign() == 0 || no.Cmp(big.NewInt(1)) == 0 {
			return s.le0(s.Add(x, s.linMake(nil, nil, no)))
		}
		if g.Cmp(big.NewInt(1)) > 0 {
			// only the gcd can go
			xx := s.Int(0)
			as, cs, _ := linParts(d)
			for i, a := range as {
				xx = s.Add(xx, s.MulC(a, new(big.Int).Quo(cs[i], g)))
			}
			return s.mkOp("le0", TBool, s.Add(xx, s.linMake(nil, nil, no)))
		}
	}
	return s.mkOp("le0", TBool, d)
}
func (s *Store) eq0(d *Term) *Term {
	if v, ok := d.IntVal(); ok {
		return s.Bool(v == 0)
	}
	// parity: x&1 == 0 and x%2 == 0 are the same test for every x
	if d.Op == "and" && len(d.Args) == 2 {
		for i := 0; i < 2; i++ {
			if k, ok := d.Args[i].IntVal(); ok && k == 1 {
				return s.eq0(s.Op("imod", TInt, d.Args[1-i], s.Int(2)))
			}
		}
	}
	if r := s.liftSel(d, s.eq0); r != nil {
		return r
	}
	// g*q*X == 0 is X == 0 (g the gcd of the coefficients, q >= 1 a common factor); g*X + off == 0 with g not dividing
	// off never holds
	if x, off, g, q, ok := s.divideOut(d); ok {
		m := new(big.Int).Mod(off, g)
		if m.Sign() != 0 {
			return s.False
		}
		if off.Sign() == 0 {
			return s.eq0(x)
		}
		if q == nil {
			return s.eq0(s.Add(x, s.linMake(nil, nil, new(big.Int).Quo(off, g))))
		}
	}
	// sign-normalise: first coefficient positive
	_, cs, _ := linParts(d)
	if len(cs) > 0 && cs[0].Sign() < 0 {
		d = s.Neg(d)
	}
	return s.mkOp("eq0", TBool, d)
}

func (s *Store) Not(a *Term) *Term {
	if v, ok := a.BoolVal(); ok {
		return s.Bool(!v)
	}
	switch a.Op {
	case "not":
		return a.Args[0]
	case "le0": // !(d<=0) == d>=1 == 1-d<=0
		return s.le0(s.Sub(s.Int(1), a.Args[0]))
	case "flt": // !(a<b) == b<=a   (no NaN)
		return s.mkOp("fle", TBool, a.Args[1], a.Args[0])
	case "fle":
		return s.mkOp("flt", TBool, a.Args[1], a.Args[0])
	}
	return s.mkOp("not", TBool, a)
}

func (s *Store) And(a, b *Term) *Term {
	if v, ok := a.BoolVal(); ok {
		if v {
			return b
		}
		return s.False
	}
	if v, ok := b.BoolVal(); ok {
		if v {
			return a
		}
		return s.False
	}
	if a == b {
		return a
	}
	if s.Not(a) == b {
		return s.False
	}
	if a.id > b.id {
		a, b = b, a
	}
	return s.mkOp("land", TBool, a, b)
}
func (s *Store) Or(a, b *Term) *Term {
	if v, ok := a.BoolVal(); ok {
		if v {
			return s.True
		}
		return b
	}
	if v, ok := b.BoolVal(); ok {
		if v {
			return s.True
		}
		return a
	}
	if a == b {
		return a
	}
	if s.Not(a) == b {
		return s.True
	}
	if a.id > b.id {
		a, b = b, a
	}
	return s.mkOp("lor", TBool, a, b)
}

// ---- printing ----

func (t *Term) String() string {
	var sb strings.Builder
	t.write(&sb, 0)
	return sb.String()
}

func (t *Term) write(sb *strings.Builder, depth int) {
	if depth > 12 {
		sb.WriteString("…")
		return
	}
	switch t.K {
	case KConst:
		if t.C == nil {
			sb.WriteString("nil")
		} else if t.Ty == TString {
			x := constant.StringVal(t.C)
			if len(x) > 40 {
				x = x[:40] + "…"
			}
			fmt.Fprintf(sb, "%q", x)
		} else if t.Ty == TFloat {
			f, _ := constant.Float64Val(t.C)
			fmt.Fprintf(sb, "%g", f)
		} else {
			sb.WriteString(t.C.String())
		}
	case KSym:
		sb.WriteString(t.Sym.Name)
	case KOp:
		if t.Op == "lin" {
			sb.WriteString("(")
			first := true
			for i, a := range t.Args {
				c := t.Coefs[i]
				if !first && c.Sign() >= 0 {
					sb.WriteString("+")
				}
				first = false
				if c.Cmp(big.NewInt(1)) == 0 {
				} else if c.Cmp(big.NewInt(-1)) == 0 {
					sb.WriteString("-")
				} else {
					sb.WriteString(c.String() + "*")
				}
				a.write(sb, depth+1)
			}
			if t.Off.Sign() != 0 {
				if t.Off.Sign() > 0 {
					sb.WriteString("+")
				}
				sb.WriteString(t.Off.String())
			}
			sb.WriteString(")")
			return
		}
		sb.WriteString(t.Op)
		sb.WriteString("(")
		for i, a := range t.Args {
			if i > 0 {
				sb.WriteString(", ")
			}
			a.write(sb, depth+1)
		}
		sb.WriteString(")")
	}
}

// Walk visits every distinct sub-term once.
func Walk(t *Term, seen map[*Term]bool, f func(*Term)) {
	if t == nil || seen[t] {
		return
	}
	seen[t] = true
	f(t)
	for _, a := range t.Args {
		Walk(a, seen, f)
	}
}

// DependsOn reports whether t mentions a symbol satisfying pred.
func DependsOn(t *Term, pred func(*Symbol) bool) bool {
	found := false
	Walk(t, map[*Term]bool{}, func(x *Term) {
		if x.K == KSym && pred(x.Sym) {
			found = true
		}
	})
	return found
}

// Subst rebuilds t with symbols replaced according to m (memoised in memo).
func (s *Store) Subst(t *Term, m map[*Symbol]*Term, memo map[*Term]*Term) *Term {
	if t == nil {
		return nil
	}
	if r, ok := memo[t]; ok {
		return r
	}
	var r *Term
	switch t.K {
	case KConst:
		r = t
	case KSym:
		if x, ok := m[t.Sym]; ok {
			r = x
		} else {
			r = t
		}
	case KOp:
		changed := false
		na := make([]*Term, len(t.Args))
		for i, a := range t.Args {
			na[i] = s.Subst(a, m, memo)
			if na[i] != a {
				changed = true
			}
		}
		if !changed {
			r = t
		} else if t.Op == "lin" {
			acc := s.linMake(nil, nil, t.Off)
			for i, a := range na {
				acc = s.Add(acc, s.MulC(a, t.Coefs[i]))
			}
			r = acc
		} else {
			r = s.rebuild(t, na)
		}
	}
	memo[t] = r
	return r
}

func (s *Store) rebuild(t *Term, na []*Term) *Term {
	switch t.Op {
	case "le0":
		return s.le0(na[0])
	case "eq0":
		return s.eq0(na[0])
	case "not":
		return s.Not(na[0])
	case "land":
		return s.And(na[0], na[1])
	case "lor":
		return s.Or(na[0], na[1])
	}
	return s.Op(t.Op, t.Ty, na...)
}

// intSel builds iabs / imax / imin with a canonical operand order (and sign for iabs).
func (s *Store) intSel(op string, args ...*Term) *Term {
	if op == "iabs" {
		x := args[0]
		if v, ok := x.IntVal(); ok {
			if v < 0 {
				v = -v
			}
			return s.Int(v)
		}
		// |x| == |-x|: first coefficient positive
		if _, cs, _ := linParts(x); len(cs) > 0 && cs[0].Sign() < 0 {
			x = s.Neg(x)
		}
		if nonNeg(x) {
			return x
		}
		return s.mkOp("iabs", TInt, x)
	}
	a, b := args[0], args[1]
	if a == b {
		return a
	}
	if a.id > b.id {
		a, b = b, a
	}
	return s.mkOp(op, TInt, a, b)
}

// Renorm rebuilds t bottom-up through the normalising constructors (after new facts such as Attr["nonneg"] were
// attached to symbols).
func (s *Store) Renorm(t *Term, memo map[*Term]*Term) *Term {
	if t == nil || t.K != KOp {
		return t
	}
	if r, ok := memo[t]; ok {
		return r
	}
	na := make([]*Term, len(t.Args))
	for i, a := range t.Args {
		na[i] = s.Renorm(a, memo)
	}
	var r *Term
	if t.Op == "lin" {
		acc := s.linMake(nil, nil, t.Off)
		for i, a := range na {
			acc = s.Add(acc, s.MulC(a, t.Coefs[i]))
		}
		r = acc
	} else {
		r = s.rebuild(t, na)
	}
	memo[t] = r
	return r
}

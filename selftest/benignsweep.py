#!/usr/bin/env python3
"""Applies every kept behaviour-preserving change (/verif/benign/<id>/patch.diff, written by independent sub-agents
that were asked for refactorings a maintainer would call no-ops) to a scratch copy of /repo and runs ALL checks on it;
every check must stay silent, except for the imprecisions listed in /verif/benign/KNOWN_IMPRECISION.json.
usage: benignsweep.py [-j N] [substr]"""
import json, os, subprocess, sys, tempfile, shutil, concurrent.futures as cf
env = dict(os.environ, GOFLAGS='-mod=mod', GOPROXY='off', GOSUMDB='off', GOTOOLCHAIN='local', GOWORK='off')
args = sys.argv[1:]
jobs = 4
if args[:1] == ['-j']:
    jobs = int(args[1]); args = args[2:]
sub = args[0] if args else ''
PROPS = os.environ.get('BENIGN_PROPS', '').split() or ['C%02d' % i for i in range(1, 21)]  # BENIGN_PROPS='C13 C16': only those checks
RCHECK = os.environ.get('RCHECK', '/verif/bin/rcheck')
known = {}
kp = '/verif/benign/KNOWN_IMPRECISION.json'
if os.path.exists(kp):
    for e in json.load(open(kp)):
        known.setdefault(e['id'], set()).update(e['props'])
def run(bid):
    d = os.path.join('/verif/benign', bid)
    t = tempfile.mkdtemp(prefix='bensw.', dir='/tmp')
    try:
        r = os.path.join(t, 'r')
        shutil.copytree('/repo', r, ignore=shutil.ignore_patterns('.git'))
        p = subprocess.run(['patch', '-p1', '--quiet', '-i', os.path.join(d, 'patch.diff')], cwd=r, capture_output=True, text=True)
        if p.returncode != 0:
            return bid, ['PATCH-FAILS'], []
        b = subprocess.run(['go', 'build', './...'], cwd=r, env=env, capture_output=True, text=True)
        if b.returncode != 0:
            return bid, ['BUILD-FAILS'], []
        alarms, expected = [], []
        for prop in PROPS:
            e = dict(env, VERIF_HOME=os.path.join(t, 'vh'))
            out = subprocess.run([RCHECK, '-repo', r, '-prop', prop], env=e, capture_output=True, text=True).stdout
            if any(l.startswith('VIOLATION') for l in out.splitlines()):
                first = next((l for l in out.splitlines() if l.startswith(('REFUTED', 'UNDECIDED'))), '')
                (expected if prop in known.get(bid, ()) else alarms).append(prop + ': ' + ' '.join(first.split())[:160])
        return bid, alarms, expected
    finally:
        shutil.rmtree(t, ignore_errors=True)
ids = sorted(x for x in os.listdir('/verif/benign') if sub in x and os.path.exists(os.path.join('/verif/benign', x, 'patch.diff')))
bad = 0
with cf.ThreadPoolExecutor(jobs) as ex:
    for bid, alarms, expected in ex.map(run, ids):
        if alarms:
            bad += 1
        print(('BAD ' if alarms else 'ok  ') + f'{bid:12s} ' + ('; '.join(alarms) if alarms else 'silent') + (('   [known imprecision: ' + '; '.join(expected) + ']') if expected else ''), flush=True)
print(f'{len(ids)} behaviour-preserving changes, {bad} with unexpected alarms')
sys.exit(1 if bad else 0)

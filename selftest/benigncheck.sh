#!/bin/bash
# usage: benigncheck.sh <dir with patch.diff> [props...]  — applies a behaviour-preserving change to a scratch copy and runs the checks (all 20 by default); every check should stay silent
set -u
SD=$1; shift
PROPS=${@:-C01 C02 C03 C04 C05 C06 C07 C08 C09 C10 C11 C12 C13 C14 C15 C16 C17 C18 C19 C20}
export GOFLAGS=-mod=mod GOPROXY=off GOSUMDB=off GOTOOLCHAIN=local GOWORK=off
T=$(mktemp -d /tmp/benchk.XXXX)
trap 'rm -rf $T' EXIT
cp -r /repo/. $T/r; rm -rf $T/r/.git
( cd $T/r && patch -p1 --quiet < $SD/patch.diff ) || { echo "PATCH-FAILS"; exit 2; }
( cd $T/r && go build ./... 2>$T/build.err ) || { echo "BUILD-FAILS"; head -3 $T/build.err; exit 2; }
echo "  suite(root): $(cd $T/r && go test -vet=off -count=1 . 2>&1 | tail -1)"
for p in $PROPS; do
  r=$(VERIF_HOME=$T/vh ${RCHECK:-/verif/bin/rcheck} -repo $T/r -prop $p)
  if echo "$r" | grep -q "^VIOLATION"; then echo "  $p FALSE-ALARM: $(echo "$r" | grep -E '^(REFUTED|UNDECIDED)' | head -2 | cut -c1-330 | tr '\n' ' ')"; fi
done
echo "  done"

#!/bin/bash
# usage: seedcheck2.sh <seed dir> <benign id> <prop...>
# A seeded change made ON TOP OF a behaviour-preserving refactoring (benign/<id>): confirms, in scratch copies, that the
# refactored base builds and passes, that the seed applies to it, builds, keeps the root suite green, that the
# demonstration fails with the seed and passes on the refactored base; runs the listed checks on base+seed (must fire)
# and on the base alone (must be silent). Writes the combined patch (relative to /repo) to <seed dir>/combined.diff.
set -u
SD=$1; B=$2; shift 2
export GOFLAGS=-mod=mod GOPROXY=off GOSUMDB=off GOTOOLCHAIN=local GOWORK=off
T=$(mktemp -d /tmp/seedchk2.XXXX)
trap 'rm -rf $T' EXIT
mkdir $T/with $T/without $T/orig
cp -r /repo/. $T/orig/; rm -rf $T/orig/.git; cp -r $T/orig/. $T/without/
( cd $T/without && patch -p1 --quiet < /verif/benign/$B/patch.diff ) || { echo "BASE-PATCH-FAILS"; exit 2; }
cp -r $T/without/. $T/with/
( cd $T/with && patch -p1 --quiet < $SD/patch.diff ) || { echo "PATCH-FAILS"; exit 2; }
( cd $T/with && go build ./... 2>$T/build.err ) || { echo "BUILD-FAILS"; head -3 $T/build.err; exit 2; }
echo "  suite(root) with change: $(cd $T/with && go test -vet=off -count=1 . 2>&1 | tail -1)"
demo=$(ls $SD/*_test.go 2>/dev/null | head -1)
if [ -n "$demo" ]; then
  pkg=$(grep -m1 '^package ' $demo | awk '{print $2}')
  case $pkg in randomness_test) dir=. ;; fft_test) dir=fft ;; main) dir=${DEMODIR:-tools/rddetector} ;; randomness) dir=. ;; detect|detect_test) dir=detect ;; fft) dir=fft ;; *) dir=. ;; esac
  tname=$(grep -o 'func Test[A-Za-z0-9_]*' $demo | sed 's/func //' | paste -sd'|')
  for v in with without; do
    cp $demo $T/$v/$dir/zz_seed_demo_test.go
    out=$(cd $T/$v && timeout 900 go test -vet=off -count=1 -run "^(${tname})\$" ./$dir 2>&1 | tail -1)
    echo "  demo $v change: $out"
    rm -f $T/$v/$dir/zz_seed_demo_test.go
  done
fi
( cd $T && git diff --no-index --no-prefix orig with 2>/dev/null | sed -e 's#^--- orig/#--- a/#' -e 's#^+++ with/#+++ b/#' -e 's#^diff --git orig/\(.*\) with/\(.*\)#diff --git a/\1 b/\2#' | grep -v "^Binary\|data/data.bin" > $SD/combined.diff )
for p in "$@"; do
  r=$(VERIF_HOME=$T/vh /verif/bin/rcheck -repo $T/with -prop $p)
  if echo "$r" | grep -q "^VIOLATION"; then echo "  $p FIRES: $(echo "$r" | grep -E '^(REFUTED|UNDECIDED)' | head -1 | cut -c1-230)"; else echo "  $p silent"; fi
  r=$(VERIF_HOME=$T/vh /verif/bin/rcheck -repo $T/without -prop $p)
  if echo "$r" | grep -q "^VIOLATION"; then echo "  $p on the refactored base alone: FALSE ALARM"; fi
done

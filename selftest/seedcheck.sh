#!/bin/bash
# usage: seedcheck.sh <seed dir> <prop...>
# Confirms a seeded change in scratch copies outside /repo and /verif: it applies, builds, the root suite stays green,
# the demonstration fails with the change and passes without it; then runs the listed checks on the changed copy.
set -u
SD=$1; shift
export GOFLAGS=-mod=mod GOPROXY=off GOSUMDB=off GOTOOLCHAIN=local GOWORK=off
T=$(mktemp -d /tmp/seedchk.XXXX)
trap 'rm -rf $T' EXIT
mkdir $T/with $T/without
cp -r /repo/. $T/with/; rm -rf $T/with/.git; cp -r $T/with/. $T/without/
( cd $T/with && patch -p1 --quiet < $SD/patch.diff ) || { echo "PATCH-FAILS"; exit 2; }
( cd $T/with && go build ./... 2>$T/build.err ) || { echo "BUILD-FAILS"; head -3 $T/build.err; exit 2; }
echo "  suite(root) with change: $(cd $T/with && go test -vet=off -count=1 . 2>&1 | tail -1)"
demo=$(ls $SD/*_test.go 2>/dev/null | head -1)
if [ -n "$demo" ]; then
  pkg=$(grep -m1 '^package ' $demo | awk '{print $2}')
  case $pkg in randomness_test) dir=. ;; fft_test) dir=fft ;; main) dir=${DEMODIR:-tools/rddetector} ;; randomness) dir=. ;; detect|detect_test) dir=detect ;; fft) dir=fft ;; *) dir=. ;; esac
  tname=$(grep -o 'func Test[A-Za-z0-9_]*' $demo | sed 's/func //' | paste -sd'|')
  for v in with without; do
    cp $demo $T/$v/$dir/zz_seed_demo_test.go
    out=$(cd $T/$v && timeout 600 go test -vet=off -count=1 -run "^(${tname})\$" ./$dir 2>&1 | tail -1)
    echo "  demo $v change: $out"
  done
elif [ -f $SD/demo/main.go ]; then
  for v in with without; do
    mkdir -p $T/$v/zz_demo && cp $SD/demo/main.go $T/$v/zz_demo/
    out=$(cd $T/$v && timeout 600 go run ./zz_demo 2>&1 | tail -2 | tr '\n' ' ')
    echo "  demo $v change: rc=$? $out"
  done
fi
for p in "$@"; do
  r=$(VERIF_HOME=$T/vh /verif/bin/rcheck -repo $T/with -prop $p)
  if echo "$r" | grep -q "^VIOLATION"; then echo "  $p FIRES: $(echo "$r" | grep -E '^(REFUTED|UNDECIDED)' | head -1 | cut -c1-230)"; else echo "  $p silent"; fi
done

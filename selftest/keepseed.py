#!/usr/bin/env python3
"""keepseed.py <prop> <src seed dir> <name> <detected-by text> — copies a confirmed seeded change into /verif/seeded/<name>/"""
import json, os, shutil, sys, glob
prop, src, name, det = sys.argv[1:5]
dst = os.path.join('/verif/seeded', name)
os.makedirs(dst, exist_ok=True)
shutil.copy(os.path.join(src, 'patch.diff'), dst)
for f in glob.glob(os.path.join(src, '*_test.go')):
    shutil.copy(f, os.path.join(dst, os.path.basename(f) + '.txt'))  # .txt: must not be compiled as part of /verif
if os.path.isdir(os.path.join(src, 'demo')):
    shutil.copytree(os.path.join(src, 'demo'), os.path.join(dst, 'demo'), dirs_exist_ok=True)
meta = json.load(open(os.path.join(src, 'meta.json')))
meta['property'] = prop
meta['origin'] = 'independent sub-agent given only the property text and a scratch worktree of /repo'
meta['confirmed'] = ('selftest/seedcheck.sh: patch applies to a scratch copy of /repo HEAD, go build ./... ok, root test suite green with the change, '
                     'demonstration FAILS with the change and PASSES without it')
meta['checks_run'] = det
json.dump(meta, open(os.path.join(dst, 'meta.json'), 'w'), indent=1, ensure_ascii=False)
print('kept', dst)

#!/usr/bin/env python3
"""Applies every kept seeded change (/verif/seeded/<id>/patch.diff) to a scratch copy of /repo and runs the check of
the property it was written against; every one of them must fire. usage: seedsweep.py [-j N] [substr]"""
import json, os, subprocess, sys, tempfile, shutil, concurrent.futures as cf
env = dict(os.environ, GOFLAGS='-mod=mod', GOPROXY='off', GOSUMDB='off', GOTOOLCHAIN='local', GOWORK='off')
args = sys.argv[1:]
jobs = 4
if args[:1] == ['-j']:
    jobs = int(args[1]); args = args[2:]
sub = args[0] if args else ''
def run(sid):
    d = os.path.join('/verif/seeded', sid)
    prop = json.load(open(os.path.join(d, 'meta.json'))).get('property')
    t = tempfile.mkdtemp(prefix='seedsw.', dir='/tmp')
    try:
        r = os.path.join(t, 'r')
        shutil.copytree('/repo', r, ignore=shutil.ignore_patterns('.git'))
        p = subprocess.run(['patch', '-p1', '--quiet', '-i', os.path.join(d, 'patch.diff')], cwd=r, capture_output=True, text=True)
        if p.returncode != 0:
            return sid, prop, 'PATCH-FAILS'
        e = dict(env, VERIF_HOME=os.path.join(t, 'vh'))
        out = subprocess.run(['/verif/bin/rcheck', '-repo', r, '-prop', prop], env=e, capture_output=True, text=True).stdout
        fired = any(l.startswith('VIOLATION') for l in out.splitlines())
        first = next((l for l in out.splitlines() if l.startswith(('REFUTED', 'UNDECIDED'))), '')
        return sid, prop, ('fires: ' + first[:150]) if fired else 'SILENT'
    finally:
        shutil.rmtree(t, ignore_errors=True)
ids = sorted(x for x in os.listdir('/verif/seeded') if sub in x and os.path.exists(os.path.join('/verif/seeded', x, 'patch.diff')))
bad = 0
with cf.ThreadPoolExecutor(jobs) as ex:
    for sid, prop, res in ex.map(run, ids):
        if not res.startswith('fires'):
            bad += 1
        print(('ok  ' if res.startswith('fires') else 'BAD ') + f'{sid:45s} {prop} {res}', flush=True)
print(f'{len(ids)} seeded changes, {bad} not caught')
sys.exit(1 if bad else 0)

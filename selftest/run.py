#!/usr/bin/env python3
"""Development-time validation of the checker (not a registered check).

For every entry of mutants.json: copy /repo to a scratch directory outside /repo and /verif,
apply one search/replace edit, run rcheck on the copy for the listed properties in a fresh
subprocess, and compare with the expectation (fire / silent). The scratch copy is removed.
usage: run.py [-k substring] [--props C07,C08]
"""
import json, os, shutil, subprocess, sys, tempfile, argparse

ap = argparse.ArgumentParser()
ap.add_argument('-k', default='')
ap.add_argument('--props', default='')
ap.add_argument('--file', default=os.path.join(os.path.dirname(__file__), 'mutants.json'))
ap.add_argument('-v', action='store_true')
args = ap.parse_args()
muts = json.load(open(args.file))
env = dict(os.environ, GOFLAGS='-mod=mod', GOPROXY='off', GOSUMDB='off', GOTOOLCHAIN='local', GOWORK='off')
bad = 0
for m in muts:
    if args.k and args.k not in m['id']:
        continue
    tmp = tempfile.mkdtemp(prefix='rvmut_')
    try:
        repo = os.path.join(tmp, 'repo')
        shutil.copytree('/repo', repo, ignore=shutil.ignore_patterns('.git', 'data'))
        for ed in m['edits']:
            path = os.path.join(repo, ed['file'])
            s = open(path, encoding='utf-8').read()
            if s.count(ed['old']) < 1:
                print(f"{m['id']}: EDIT DOES NOT APPLY in {ed['file']}: {ed['old'][:60]!r}")
                bad += 1
                continue
            cnt = ed.get('count', 1)
            s = s.replace(ed['old'], ed['new'], cnt)
            open(path, 'w', encoding='utf-8').write(s)
        b = subprocess.run(['go', 'build', './...'], cwd=repo, env=env, capture_output=True, text=True)
        if b.returncode != 0:
            print(f"{m['id']}: MUTANT DOES NOT COMPILE: {b.stderr[:300]}")
            bad += 1
            continue
        vh = os.path.join(tmp, 'vh')
        os.makedirs(vh)
        if os.path.exists('/verif/known_findings.json'):
            shutil.copy('/verif/known_findings.json', vh)
        for prop, expect in m['expect'].items():
            if args.props and prop not in args.props.split(','):
                continue
            r = subprocess.run(['/verif/bin/rcheck', '-repo', repo, '-prop', prop], env=dict(env, VERIF_HOME=vh), capture_output=True, text=True)
            fired = r.returncode != 0
            ok = fired == (expect == 'fire')
            viol = [l for l in r.stdout.splitlines() if l.startswith(('REFUTED', 'UNDECIDED'))]
            tag = 'ok ' if ok else 'BAD'
            print(f"{tag} {m['id']:45s} {prop} expected={expect} fired={fired}" + (f"  :: {viol[0][:170]}" if viol and (args.v or not ok or fired) else ''))
            if not ok:
                bad += 1
                if args.v:
                    print(r.stdout[-2000:])
    finally:
        shutil.rmtree(tmp, ignore_errors=True)
print('FAILURES:', bad)
sys.exit(1 if bad else 0)
